#!/bin/bash
# usage: confirm_seed.sh <out-dir> <seed-id>   e.g. confirm_seed.sh /tmp/out-C11/1 C11-1
# Confirms in a scratch worktree that the demo passes on the pinned tree and fails with the patch; then stores it under /verif/seeded/<seed-id>/.
set -u
src=$1; id=$2
wt=/tmp/wt-confirm-$id
meta=$src/meta.json
pkgdir=$(python3 -c "import json,sys;print(json.load(open('$meta'))['demo_package_dir'])")
run=$(python3 -c "import json,sys;print(json.load(open('$meta'))['demo_run'])")
name=$(echo "$run" | sed -n 's/.*-run[ =]\+\([^ ]*\).*/\1/p' | tr -d "'\"")
git -C /repo worktree add -q --detach $wt HEAD || exit 2
cleanup() { git -C /repo worktree remove --force $wt >/dev/null 2>&1; }
trap cleanup EXIT
cp $src/demo_test.go $wt/$pkgdir/zz_demo_test.go
cd $wt
cmd="go test -tags purego -vet=off -count=1 -run $name ./$pkgdir/"
out1=$($cmd 2>&1); rc1=$?
git apply $src/patch.diff || { echo "$id: patch does not apply"; exit 2; }
out2=$($cmd 2>&1); rc2=$?
echo "$id: clean rc=$rc1, patched rc=$rc2"
if [ $rc1 -eq 0 ] && [ $rc2 -ne 0 ]; then
  d=/verif/seeded/$id; mkdir -p $d
  cp $src/patch.diff $d/patch.diff; cp $src/demo_test.go $d/demo_test.go
  python3 - "$meta" "$d/meta.json" "$cmd" "$rc1" "$rc2" <<'PY'
import json,sys
m=json.load(open(sys.argv[1]))
m['confirmed_by_me']={'cmd':sys.argv[3],'clean_tree_exit':int(sys.argv[4]),'patched_tree_exit':int(sys.argv[5]),'where':'scratch git worktree of /repo (removed afterwards)'}
json.dump(m,open(sys.argv[2],'w'),indent=1)
PY
  echo "$id: CONFIRMED and stored"
else
  echo "$id: NOT confirmed"; echo "$out1" | tail -5; echo "$out2" | tail -5
fi
