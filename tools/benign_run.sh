#!/bin/bash
# usage: benign_run.sh <dir-with-<Cnn>/<i>/patch.diff>... ; applies each behaviour-preserving patch to /repo,
# runs the property's quick check, prints every alarm, restores /repo. /repo must be clean.
set -u
cd /verif
[ -z "$(git -C /repo status --porcelain)" ] || { echo "/repo not clean" >&2; exit 2; }
trap 'git -C /repo checkout -- . ; git -C /repo clean -fdq pkg' EXIT
for pd in "$@"; do
  p=$(basename $(dirname $pd)); p=${p#out3-}; p=${p%%-*}
  prop=$(echo $pd | grep -o 'C[0-9][0-9]' | head -1)
  git -C /repo apply $pd/patch.diff || { echo "== $pd DOES NOT APPLY"; continue; }
  out=$(BCV_OUT=/tmp/benign-out checker/bcv check $prop quick 2>&1); rc=$?
  git -C /repo checkout -- . ; git -C /repo clean -fdq pkg
  echo "== $pd $prop exit=$rc"
  echo "$out" | grep "\[C[0-9]*\.[A-Z0-9a-z]*\]" | grep -v "^KNOWN" | cut -c1-420
done
