#!/bin/bash
# Applies every stored seeded change to /repo in turn, runs the quick check of the property it breaks
# (plus the extra checks given as arguments), records which rules report it in seeded/MATRIX.md, and
# undoes the change. /repo must be clean. usage: seed_matrix.sh [extra Cnn ...]
set -u
cd /verif
[ -z "$(git -C /repo status --porcelain)" ] || { echo "/repo not clean" >&2; exit 2; }
./check --build
extra="$*"
out=seeded/MATRIX.md
echo "| seed | breaks | reported by (check: rules) |" > $out
echo "|------|--------|----------------------------|" >> $out
tmp=$(mktemp -d)
trap 'git -C /repo checkout -- . ; git -C /repo clean -fdq pkg; rm -rf $tmp' EXIT
for d in seeded/C*/; do
  id=$(basename $d)
  prop=$(python3 -c "import json;print(json.load(open('$d/meta.json'))['property'])")
  also=$(python3 -c "import json;print(' '.join(json.load(open('$d/meta.json')).get('also_check',[])))")
  git -C /repo apply /verif/$d/patch.diff || { echo "| $id | $prop | PATCH DOES NOT APPLY |" >> $out; continue; }
  hits=""
  for p in $prop $also $extra; do
    BCV_OUT=$tmp/$p checker/bcv check $p quick > $tmp/$id.$p.log 2>&1; rc=$?
    if [ "$rc" = "1" ]; then
      rules=$(grep -v '^KNOWN' $tmp/$id.$p.log | grep -o "\[C[0-9]*\.[A-Z0-9]*\]" | sort -u | tr -d '[]' | tr '\n' ' ')
      hits="$hits $p: $rules;"
    fi
  done
  git -C /repo checkout -- . ; git -C /repo clean -fdq pkg
  echo "| $id | $prop | ${hits:-**not reported**} |" >> $out
  echo "$id -> ${hits:-MISSED}"
done
# which seeds the quick checks report (consumed by the thorough tier)
python3 - <<'PY'
import re, json
exp = {}
for l in open('/verif/seeded/MATRIX.md'):
    m = re.match(r'\| (C\d+b?-\d) \| (C\d+) \| (.*) \|', l)
    if m:
        exp[m.group(1)] = 'not reported' not in m.group(3) and 'NOT APPLY' not in m.group(3)
json.dump(exp, open('/verif/seeded/EXPECT.json', 'w'), indent=1, sort_keys=True)
PY
