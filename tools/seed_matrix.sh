#!/bin/bash
# Applies every stored seeded change to /repo in turn, runs all quick checks in parallel, records which
# checks/rules report it in seeded/MATRIX.md, and undoes the change. /repo must be clean.
set -u
cd /verif
[ -z "$(git -C /repo status --porcelain)" ] || { echo "/repo not clean" >&2; exit 2; }
./check --build
props=$(python3 -c "import json;print(' '.join(c['property_id'] for c in json.load(open('MANIFEST.json'))['checks']))")
out=seeded/MATRIX.md
echo "| seed | breaks | reported by (check: rules) |" > $out
echo "|------|--------|----------------------------|" >> $out
tmp=$(mktemp -d)
for d in seeded/C*/; do
  id=$(basename $d)
  git -C /repo apply /verif/$d/patch.diff || { echo "| $id | - | PATCH DOES NOT APPLY |" >> $out; continue; }
  for p in $props; do ( BCV_OUT=$tmp/$p checker/bcv check $p quick > $tmp/$id.$p.log 2>&1; echo $? > $tmp/$id.$p.rc ) & done
  wait
  git -C /repo checkout -- . 
  hits=""
  for p in $props; do
    if [ "$(cat $tmp/$id.$p.rc)" = "1" ]; then
      rules=$(grep -o "\[C[0-9]*\.[A-Z0-9]*\]" $tmp/$id.$p.log | sort -u | tr -d '[]' | tr '\n' ' ')
      hits="$hits $p: $rules;"
    fi
  done
  prop=$(python3 -c "import json;print(json.load(open('$d/meta.json'))['property'])")
  echo "| $id | $prop | ${hits:-**not reported**} |" >> $out
  echo "$id -> ${hits:-MISSED}"
done
rm -rf $tmp
