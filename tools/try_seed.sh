#!/bin/bash
# usage: try_seed.sh <patch.diff> <Cnn> [more Cnn...]  – apply a seeded change to /repo, run the checks, undo.
set -u
patch=$1; shift
cd /repo || exit 2
if [ -n "$(git status --porcelain)" ]; then echo "/repo not clean" >&2; exit 2; fi
git apply "$patch" || { echo "patch does not apply" >&2; exit 2; }
trap 'git -C /repo checkout -- . >/dev/null 2>&1; git -C /repo clean -fdq pkg >/dev/null 2>&1' EXIT
cd /verif
for p in "$@"; do
  out=$(./check "$p" quick 2>&1); rc=$?
  echo "--- $p exit=$rc"
  echo "$out" | grep -v '^VIOLATION' | tail -6
done
