# Table of claims; executed by mkmanifest.py. Keep in step with DESIGN.md §0/§5.
BASELINE_CMD = "cd /repo && go test -json -vet=off -count=1 -timeout 25m ./..."
NOTES = ("All checks are static analyses of /repo's working tree in the purego build configuration; nothing from bron-crypto is executed. "
         "Every claim is at level 'other': it decides the named structural clauses (necessary conditions) of the property for all inputs/schedules, "
         "not the arithmetic behaviour. Genuine defects that are recorded rather than repaired are listed in known-findings.txt.")
NOTE_COMMON = ("Trusted base: go/packages+go/types+go/cfg(+go/ssa) of x/tools v0.50.0 under go1.26.8; the purego build configuration; "
               "frozen reference inventories under checker/ref (produced from the pinned tree and reviewed). cgo-only files are not analysed. "
               "Decides structural clauses only; arithmetic correctness of the guarded computations is out of reach of static analysis and not claimed.")

NOT_APPLICABLE = {
 "C01": "honest-run signature validity is an arithmetic identity over runtime field/group values; no static rule can bound it (its enforcement points are decided under C04/C11)",
 "C03": "agreement of DKG outputs and reconstruct = dlog(pk) are arithmetic; enforcement points (NewBaseShard guard, share/proof verification, decoders) are decided under C04, C05, C12",
 "C14": "equality of limb arithmetic, addition formulas, scalar multiplication and pairings with the mathematical operations is numerical for every operand",
 "C20": "exactness of interpolation and Gaussian elimination (and 'fails only when no solution exists') is a statement about ranks and field values",
}

G = "guard inventory (AST + go/cfg + go/types): "
claim("C02", "guard-inventory + admission must-pass (go/cfg dominance)", "Decides that the qualification/shape guards of access structures, MSP and KW dealing are all still effective (inventory inclusion) and that no vacuous comparison exists; for all inputs because it is a property of the program text. Does not decide rank computations or privacy.", NOTE_COMMON, "§5 C02")
claim("C04", "guard-inventory + blame-tag dataflow", "Decides that every verification step guarding a round/aggregate output on the pinned tree is still present, effective and on the output path in every protocol package. Does not decide sufficiency of the check set or honest-run arithmetic.", NOTE_COMMON, "§5 C04")
claim("C05", "guard-inventory", "Decides presence/effectiveness of the Feldman/Pedersen verification equality, dimension guards and NewBaseShard consistency guard. Does not decide the arithmetic of the verification equation.", NOTE_COMMON, "§5 C05")
claim("C06", "guard-inventory", "Decides that a redistributed shard / zero sharing is only released behind the old-pk=new-pk, per-sender verification and identity guards. Does not decide invariance of the secret over histories.", NOTE_COMMON, "§5 C06")
claim("C08", "guard-inventory", "Decides presence/effectiveness of all verification guards in the sigma protocols and compilers. Does not decide completeness/extraction/simulation.", NOTE_COMMON, "§5 C08")
claim("C09", "guard-inventory", "Abort clause only: the OT-extension challenge check, base-OT response checks and RVOLE mu check are present and effective. Does not decide the correlation itself.", NOTE_COMMON, "§5 C09")
claim("C10", "guard-inventory", "Decides the commit-then-open guards of session setup are present and effective. Does not decide symmetry/distinctness of seeds.", NOTE_COMMON, "§5 C10")
claim("C11", "guard-inventory", "Decides presence/effectiveness of the router/echo/exchange guards. Does not decide deadlock freedom or linearizability.", NOTE_COMMON, "§5 C11")
claim("C12", "guard-inventory over all UnmarshalCBOR", "Decides that every decoder keeps its validating calls effective. Does not decide value-level round-trip equality.", NOTE_COMMON, "§5 C12")
claim("C13", "guard-inventory", "Decides that every point/scalar decoder keeps its on-curve, length, flag and subgroup guards. Does not decide injectivity/round trip.", NOTE_COMMON, "§5 C13")
claim("C15", "guard-inventory", "Rejection clauses only: BLS identity/subgroup/pairing guards, ECDSA recovery-id/low-S/native verification guards, Schnorr equality guards are present and effective.", NOTE_COMMON, "§5 C15")
claim("C16", "guard-inventory", "Only the two structural mechanisms: ciphertext-group membership guard in Decrypt/Open and key-size floor; plus inventory of all encryption guards.", NOTE_COMMON, "§5 C16")
claim("C17", "guard-inventory", "Discipline only: error-returning big-number APIs keep their failure guards. Does not decide any numerical result.", NOTE_COMMON, "§5 C17")
claim("C18", "guard-inventory", "Decides that every Open reaches an effective equality guard and key constructors keep their guards. Does not decide hiding/binding.", NOTE_COMMON, "§5 C18")
claim("C19", "guard-inventory", "Decides guards of transcript and hash-to-curve code are intact. Framing rule pending.", NOTE_COMMON, "§5 C19")

claim("C07", "reader-provenance dataflow + sampler inventory", "Decides that every io.Reader consumed by library code originates from the caller's reader (parameter / field stored from a parameter / enumerated deterministic derivation), that no ambient entropy source or reader-ignoring stdlib function is used (three known findings listed), that sampler errors are not ignored, reads are full-length into non-empty buffers, and that no function stops sampling compared with the frozen sampler inventory. Does not decide statistical quality or that joint values combine all contributions.", NOTE_COMMON, "§5 C07")
