# Table of claims; executed by mkmanifest.py. Keep in step with DESIGN.md §0/§5.
BASELINE_CMD = "cd /repo && go test -json -vet=off -count=1 -timeout 25m ./..."
NOTES = ("All checks are static analyses of /repo's working tree in the purego build configuration; nothing from bron-crypto is executed. "
         "Every claim is at level 'other': it decides the named structural clauses (necessary conditions) of the property for all inputs/schedules, "
         "not the arithmetic behaviour. Genuine defects that are recorded rather than repaired are listed in known-findings.txt; "
         "repaired ones are the 'fix:' commits in /repo, listed there as 'fixed:'. thorough = quick + in-memory overlays: catalogued mutants and stored seeded changes (must be reported), benign rewrites and stored behaviour-preserving refactorings (must stay silent).")
NOTE_COMMON = ("Trusted base: go/packages+go/types+go/cfg of x/tools v0.50.0 under go1.26.8; the purego build configuration; "
               "frozen reference inventories under checker/ref (produced by `bcv emit` from the reviewed tree). cgo-only files are not analysed. "
               "Decides structural clauses only; arithmetic correctness of the guarded computations is out of reach of static analysis and not claimed. "
               "Renames, moved / extracted / inlined private helpers, cached operands, inverted or merged conditions and loop forms are tolerated by construction; a restructuring the rules cannot see through (a loop replaced by a closure-taking stdlib helper, symmetric branches merged, A&&B rewritten as a switch; DESIGN section 10 lists the classes) is reported and needs the reference to be re-emitted after review.")

NOT_APPLICABLE = {
 "C01": "honest-run signature validity is an arithmetic identity over runtime field/group values; no static rule can bound it (its enforcement points are decided under C04/C11)",
 "C03": "agreement of DKG outputs and reconstruct = dlog(pk) are arithmetic; enforcement points (NewBaseShard guard, share/proof verification, decoders) are decided under C04, C05, C12",
 "C14": "equality of limb arithmetic, addition formulas, scalar multiplication and pairings with the mathematical operations is numerical for every operand",
 "C20": "exactness of interpolation and Gaussian elimination (and 'fails only when no solution exists') is a statement about ranks and field values",
}

claim("C02", "guard inventory (go/cfg dominance) + constant-comparison and call inventories, operand-immutability lint + loop-bound inventory",
      "Decides that every qualification/shape/constraint guard of the access structures, MSP and sharing schemes is still effective, on the same paths and fed by the same operands; that branch bounds (thresholds, level ordering) are unchanged; that share combinators do not mutate their operands. Holds for all inputs because it is a property of the program text. Does not decide rank computations, privacy, or the value an algorithm computes.",
      NOTE_COMMON, "§5 C02")
claim("C04", "guard inventory + blame-tag dataflow + validate-before-use + store-guard dominance + transcript-op order + loop-bound inventory",
      "Decides for all protocol packages that every verification step guarding a round/aggregate output is present, effective, MUST where it was MUST, fed by the same operands and blaming the same sender-derived sharing.ID; that peer messages are validated before any other read; that state is stored only behind the checks that validated it; that blame errors are fresh objects; that commitment inputs cover all fields; that Fiat-Shamir operations keep their order. Does not decide sufficiency of the check set, termination, or honest-run arithmetic.",
      NOTE_COMMON, "§5 C04")
claim("C05", "guard + constant-comparison + call inventory, operand-immutability lint + loop-bound inventory",
      "Decides presence/effectiveness/operands of the Feldman/Pedersen verification equality, the dimension guards (incl. mat.LeftAction) and the NewBaseShard consistency guard, and that share/verification-vector combinators never write into their operands. Does not decide the arithmetic of the verification equation.",
      NOTE_COMMON, "§5 C05")
claim("C06", "guard inventory with phi operand shapes + store-guard dominance + loop-bound inventory",
      "Decides that a redistributed shard / zero sharing is only released behind the old-pk = new-pk, per-sender verification, partial-pk and identity guards, with the trusted reference chosen under the same conditions as on the reference tree. Does not decide invariance of the secret over operation histories.",
      NOTE_COMMON, "§5 C06")
claim("C07", "reader-provenance dataflow + sampler inventory + loop-bound inventory",
      "Decides that every io.Reader consumed by library code originates from the caller's reader (parameter / field stored from a parameter / enumerated deterministic derivation), that no ambient entropy source or reader-ignoring stdlib function is used (three known findings listed), that sampler errors are not ignored, reads are full-length into non-empty buffers, and that no function stops sampling, samples into a different buffer or hoists a sampler out of its loop compared with the frozen sampler inventory; plus guard/branch/sponge-op inventories over the protocol packages so that the loops folding every party's contribution into joint values keep their bounds and order. Does not decide statistical quality.",
      NOTE_COMMON, "§5 C07")
claim("C08", "guard inventory + field-coverage of Bytes() + transcript-op order + loop-bound inventory",
      "Decides presence/effectiveness/operands of all verification guards in the sigma protocols and compilers, that every statement/commitment/response Bytes() absorbs every field, and that prover and verifier perform the frozen labelled transcript operations in order. Does not decide completeness, extraction, simulation or OR-composition semantics.",
      NOTE_COMMON, "§5 C08")
claim("C09", "guard inventory + transcript-op order + store guards + loop-bound inventory",
      "Abort clause only: the OT-extension challenge check, base-OT response checks, and the RVOLE mu check and theta derivation (absorb-all-columns-then-extract) are present, effective and ordered. Does not decide the correlation itself.",
      NOTE_COMMON, "§5 C09")
claim("C10", "guard inventory + store-guard dominance + sponge-op order + blame rules + loop-bound inventory",
      "Decides commit-then-open in session setup (contributions stored only behind their Open, with the right key and commitment), that SubContext reads copies of the parent seeds and binds the sub-quorum ids, and that setup failures blame a fresh, sender-derived culprit. Does not decide symmetry/distinctness of seeds or the zero-sum identity.",
      NOTE_COMMON, "§5 C10")
claim("C11", "lockset dataflow + wake-up pairing + routing-key provenance",
      "Decides structural necessary conditions of race freedom, no lost wake-up, exact routing and broadcast consistency: guarded-by, lock pairing, no blocking under lock, every store the waiter observes is followed by a wake-up, waiter re-scan loop, buffered notify, transport-authenticated routing key behind the membership filter, buffer accounting, all echoes compared. Does not decide deadlock freedom or linearizability over all schedules.",
      NOTE_COMMON, "§5 C11")
claim("C12", "constant evaluation of decoder options + nil-flow in decoders + guard inventory + loop-bound inventory",
      "Decides that the strict CBOR mode is what it says, that nothing bypasses it, that decoders cannot nil-dereference what they decoded (67 known findings for CBOR null; absent-field panics repaired by fix: commits), that every decoder keeps its validating constructor/check, and that writers and readers agree on DTO types and tags. Does not decide value-level round-trip equality.",
      NOTE_COMMON, "§5 C12")
claim("C13", "guard + constant-comparison + call inventory, length-before-content dominance rule, subgroup sibling rule + loop-bound inventory",
      "Decides that every point/scalar decoder and affine constructor keeps its on-curve setter check, length, flag and subgroup guards with the same bounds (G1.FromAffineX repaired by a fix: commit), that no exported decoder reads a constant position of a []byte input before a test of its length (G2), and that every constructor of a prime-order type goes through a torsion check (G4). Does not decide injectivity/round trip.",
      NOTE_COMMON, "§5 C13")
claim("C15", "guard + constant-comparison + call inventory, selector-disjointness lint + loop-bound inventory",
      "Rejection clauses only: BLS identity/subgroup/pairing guards, ECDSA recovery-id/low-S/native verification guards, Schnorr/Mina equality and canonical-encoding guards are present and effective; domain-separation tags handed out by different selectors are disjoint. Does not decide acceptance of honest signatures or agreement with vectors.",
      NOTE_COMMON, "§5 C15")
claim("C16", "guard + constant-comparison + call inventory + loop-bound inventory",
      "Only the structural mechanisms: ciphertext/plaintext/nonce group-membership guards and key-size floors of Paillier/ElGamal and of the znstar groups are present, effective and have the same bounds. Does not decide exactness of homomorphisms or CRT path = public path.",
      NOTE_COMMON, "§5 C16")
claim("C17", "ok-flag lint + guard / constant-comparison inventory + loop-bound inventory",
      "Discipline only: no success flag of a fallible big-number/field primitive is dropped, and the error-returning APIs keep their failure guards and bounds. Does not decide any numerical result.",
      NOTE_COMMON, "§5 C17")
claim("C18", "guard + constant-comparison inventory + hash-op order + in-module call inventory + loop-bound inventory",
      "Decides that every Open reaches an effective equality between recomputed and presented commitment, that key constructors and the encryption/znstar validation they rely on keep their guards and bounds, and that hash absorption order is kept. Does not decide hiding/binding or homomorphism laws.",
      NOTE_COMMON, "§5 C18")
claim("C19", "sponge-operation order + guard / constant-comparison / call inventory + loop-bound inventory",
      "Decides that Hagrid absorbs tag, 64-bit lengths, message count and data in the frozen order, that extraction forks after the requested length was absorbed and ratchets the live state, that the Append helper frames each value, and that RFC 9380 expander bounds are unchanged. Does not decide agreement with RFC vectors or subgroup membership of hash-to-curve outputs.",
      NOTE_COMMON, "§5 C19")
