#!/usr/bin/env python3
"""Generates /verif/MANIFEST.json from the table below (single source of truth for the interface)."""
import json, os, sys
HERE = os.path.dirname(os.path.dirname(os.path.abspath(__file__)))

CLAIMED = {
 # id: (technique, level text, level note, design ref)
}
def claim(pid, technique, text, note, ref):
    CLAIMED[pid] = (technique, text, note, ref)

exec(open(os.path.join(HERE, "tools", "claims.py")).read())

checks = []
for pid in sorted(CLAIMED):
    technique, text, note, ref = CLAIMED[pid]
    checks.append({
        "property_id": pid,
        "quick_cmd": f"./check {pid} quick",
        "thorough_cmd": f"./check {pid} thorough",
        "evidence_file": f"evidence/{pid}.json",
        "replay_cmd_template": "./check --replay {path}",
        "engine": "bcv",
        "level_claimed": {"category": "other", "text": text, "design_ref": ref},
        "level_note": note,
        "technique": technique,
    })
na = [{"property_id": k, "reason": v} for k, v in sorted(NOT_APPLICABLE.items()) if k not in CLAIMED]
m = {
 "version": 1,
 "setup_cmd": "./check --build",
 "hooks": {"guard": "verif", "enable": "none: static analysis needs no instrumentation of bron-crypto; the analysed configuration is `-tags purego`",
           "baseline_off_cmd": BASELINE_CMD, "source_commits": [], "add_only": True},
 "engines": [{"name": "bcv", "path": "checker/", "serves_properties": sorted(CLAIMED),
              "kind_free_text": "repository-specific static analyser (go/packages + go/types + go/cfg + go/ssa, x/tools v0.50.0, go1.26.8): guard inventory, blame-tag dataflow, reader provenance, lockset, nil-flow, framing, tables/siblings"}],
 "checks": checks,
 "not_applicable": na,
 "notes": NOTES,
}
json.dump(m, open(os.path.join(HERE, "MANIFEST.json"), "w"), indent=1)
print("MANIFEST.json:", len(checks), "checks,", len(na), "not applicable")
