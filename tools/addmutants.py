#!/usr/bin/env python3
"""Validate candidate overlay mutants against the checker and record the ones that are (a) unique,
(b) compile, (c) reported with the expected rule. usage: addmutants.py candidates.json"""
import json, subprocess, sys, os
cands = json.load(open(sys.argv[1]))
path = '/verif/checker/mutants.json'
db = json.load(open(path)) if os.path.exists(path) else {}
for c in cands:
    prop = c['prop']
    src = open('/repo/' + c['file']).read()
    if src.count(c['old']) != 1:
        print('SKIP (not unique: %d)' % src.count(c['old']), prop, c['name']); continue
    out = subprocess.run(['/verif/checker/bcv', 'mutate', prop, c['file'], c['old'], c['new']], capture_output=True, text=True)
    text = out.stdout + out.stderr
    if 'does not load' in text:
        print('SKIP (does not compile)', prop, c['name'], text.strip().split('\n')[-1][:200]); continue
    hit = [l for l in text.split('\n') if c['expect'] in l and '|' in l]
    if not hit:
        print('SURVIVED', prop, c['name'], '\n   ', text.strip()[-600:]); continue
    lst = db.setdefault(prop, [])
    lst[:] = [m for m in lst if m['name'] != c['name']]
    lst.append({k: c[k] for k in ('name', 'file', 'old', 'new', 'expect')})
    print('ok', prop, c['name'], '->', hit[0][:160])
json.dump(db, open(path, 'w'), indent=1)
