package main

import (
	"fmt"
	"go/ast"
	"go/token"
	"go/types"
	"sort"
	"strings"
)

// Branch-condition inventory: the multiset of normalised boolean leaves of every branch condition
// (if / for / switch case) of a function. Comparison operators, constants (bounds from the
// specifications: 255-byte DSTs, key-size floors, flag masks) and resolved callees are part of the
// shape; locals are rendered by type. Inclusion rule against the frozen reference.

func (r *Run) condShapesOf(fd *FuncDecl) map[string]int {
	out := map[string]int{}
	r.condShapesRec(fd, out, map[*FuncDecl]bool{}, 0)
	return out
}

func (r *Run) condShapesRec(fd *FuncDecl, out map[string]int, seen map[*FuncDecl]bool, depth int) {
	if seen[fd] || depth > 4 {
		return
	}
	seen[fd] = true
	for _, u := range r.G.unitsOf(fd) {
		add := func(cond ast.Expr) {
			if cond == nil {
				return
			}
			var leaves []leafInfo
			if t := u.Info.TypeOf(cond); t != nil && isBoolType(t) {
				splitLeaves(cond, true, &leaves)
			} else {
				return
			}
			for _, lf := range leaves {
				sh := u.condShapeCanonical(lf.expr)
				// attach resolved callees of calls in the leaf
				var cs []string
				ast.Inspect(lf.expr, func(n ast.Node) bool {
					if c, ok := n.(*ast.CallExpr); ok {
						if k := u.calleeKey(c); k != "" && !strings.HasPrefix(k, "builtin.") {
							cs = append(cs, k)
							return false // only the call whose result is tested, not the calls computing its operands
						}
					}
					return true
				})
				// calls cached in a local operand (x := f(); if x == y) count like calls written inline
				if be, ok := ast.Unparen(stripNot(lf.expr)).(*ast.BinaryExpr); ok {
					for _, opnd := range []ast.Expr{be.X, be.Y} {
						if dc := u.definingCall(opnd); dc != nil {
							if k := u.calleeKey(dc); k != "" && !strings.HasPrefix(k, "builtin.") {
								cs = append(cs, k)
							}
						}
					}
				}
				sort.Strings(cs)
				if len(cs) > 0 {
					sh += " [" + strings.Join(cs, ",") + "]"
				}
				out[sh]++
			}
		}
		ast.Inspect(u.Body, func(n ast.Node) bool {
			if lit, ok := n.(*ast.FuncLit); ok && lit != u.Lit {
				return false
			}
			switch x := n.(type) {
			case *ast.IfStmt:
				add(x.Cond)
			case *ast.ForStmt:
				// `for i := 0; i < n; i++` and `for i := range n` are the same loop
				if be, ok := ast.Unparen(x.Cond).(*ast.BinaryExpr); ok && be.Op == token.LSS && identOf(be.X) != nil {
					out["loop range "+u.shapeOf(be.Y)]++
				} else {
					add(x.Cond)
				}
			case *ast.RangeStmt:
				out["loop range "+u.rangeOperandShape(x, false)]++
			case *ast.CaseClause:
				for _, e := range x.List {
					if t := u.Info.TypeOf(e); t != nil && isBoolType(t) {
						add(e)
					} else {
						out["case "+u.shapeOf(e)]++
					}
				}
			case *ast.CallExpr:
				// conditions of unexported helpers count for their callers (each helper once per caller)
				if h := r.unexportedHelper(u.Info, x); h != nil {
					r.condShapesRec(h, out, seen, depth+1)
				}
			}
			return true
		})
	}
}

type condRef struct {
	Comment   string                    `json:"comment"`
	Functions map[string]map[string]int `json:"functions"`
}

func (r *Run) EmitCondRef(name string, scope Scope) {
	ref := condRef{Comment: "frozen branch-condition inventory: function -> normalised condition leaf -> count", Functions: map[string]map[string]int{}}
	for _, fd := range r.Prog.FuncsIn(scope) {
		if m := r.condShapesOf(fd); len(m) > 0 {
			ref.Functions[FuncKey(fd.Obj)] = m
		}
	}
	writeJSON(refPath(name), ref)
}

func (r *Run) CheckCondInventory(rule, name string, scope Scope, min int) {
	r.Rule(rule, "branch-condition inventory: for every function of the frozen reference ("+name+") each normalised branch condition (operator, constants, resolved callees) still occurs at least as often; an off-by-one in a bound, a flipped comparison or a changed constant is named")
	var ref condRef
	if err := readJSON(refPath(name), &ref); err != nil {
		r.FailKind("anchor-unresolved", rule, "ref:"+name, err.Error())
		return
	}
	byKey := map[string]*FuncDecl{}
	for _, fd := range r.Prog.FuncsIn(scope) {
		byKey[FuncKey(fd.Obj)] = fd
	}
	keys := []string{}
	for k := range ref.Functions {
		keys = append(keys, k)
	}
	sort.Strings(keys)
	n := 0
	for _, k := range keys {
		fd := byKey[k]
		if fd == nil {
			continue // renamed/removed functions are the guard inventory's concern
		}
		n++
		now := r.condShapesOf(fd)
		want := ref.Functions[k]
		ws := []string{}
		for w := range want {
			ws = append(ws, w)
		}
		sort.Strings(ws)
		ok := true
		for _, w := range ws {
			if now[w] < want[w] {
				ok = false
				r.Fail(rule, k+" :: "+w, r.Prog.RelPos(fd.Decl.Pos()), fmt.Sprintf("branch condition `%s` occurs %d time(s), reference has %d (conditions now: %s)", w, now[w], want[w], strings.Join(keysOfInt(now), " ; ")))
			}
		}
		if ok {
			r.Pass(rule, k, r.Prog.RelPos(fd.Decl.Pos()), fmt.Sprintf("%d condition shapes present", len(want)))
		}
	}
	r.RequireCount(rule, "functions with branch conditions", n, min)
}

func keysOfInt(m map[string]int) []string {
	ks := []string{}
	for k := range m {
		ks = append(ks, k)
	}
	sort.Strings(ks)
	if len(ks) > 12 {
		ks = ks[:12]
	}
	return ks
}

var _ = types.Universe

// condShapeCanonical renders a boolean leaf independent of which branch it selects: `a != b` and
// `a == b`, `a >= b` and `a < b`, `a > b` and `a <= b`, `!f()` and `f()` are the same test with the
// branches swapped. Operand orientation of orderings is kept (`a < b` is not `b < a`).
func (u *Unit) condShapeCanonical(e ast.Expr) string {
	e = ast.Unparen(e)
	for {
		if ue, ok := e.(*ast.UnaryExpr); ok && ue.Op == token.NOT {
			e = ast.Unparen(ue.X)
			continue
		}
		break
	}
	if be, ok := e.(*ast.BinaryExpr); ok {
		l, r := u.condOperand(be.X), u.condOperand(be.Y)
		switch be.Op {
		case token.EQL, token.NEQ:
			if l > r {
				l, r = r, l
			}
			s := l + "==" + r
			if strings.Contains(s, "<error>") && strings.Contains(s, "nil") {
				return "err"
			}
			return s
		case token.LSS, token.GEQ:
			return l + "<" + r
		case token.LEQ, token.GTR:
			return l + "<=" + r
		}
		return u.shapeOf(be)
	}
	if _, ok := e.(*ast.CallExpr); ok {
		return "call"
	}
	return u.shapeOf(e)
}

// condOperand renders an operand of a comparison: locals with one reaching definition by that
// definition (caching a call in a local does not change the condition), calls as `call`.
func (u *Unit) condOperand(e ast.Expr) string {
	e = ast.Unparen(e)
	if id, ok := e.(*ast.Ident); ok {
		if v, ok := u.Info.Uses[id].(*types.Var); ok && !v.IsField() && u.paramShape(v) == "" {
			ds := u.reachingDefs(v, e)
			if len(ds) == 1 && ds[0].rhs != nil {
				if _, isCall := ast.Unparen(ds[0].rhs).(*ast.CallExpr); isCall {
					if as, ok := ds[0].node.(*ast.AssignStmt); !ok || len(as.Lhs) == 1 {
						return u.shapeOf(ds[0].rhs)
					}
				}
			}
		}
	}
	return u.shapeOf(e)
}

func stripNot(e ast.Expr) ast.Expr {
	for {
		e = ast.Unparen(e)
		if ue, ok := e.(*ast.UnaryExpr); ok && ue.Op == token.NOT {
			e = ue.X
			continue
		}
		return e
	}
}

// definingCall: the operand is a local whose single reaching definition is `x := f(...)`.
func (u *Unit) definingCall(e ast.Expr) *ast.CallExpr {
	id, ok := ast.Unparen(e).(*ast.Ident)
	if !ok {
		return nil
	}
	v, ok := u.Info.Uses[id].(*types.Var)
	if !ok || v.IsField() || u.paramShape(v) != "" {
		return nil
	}
	ds := u.reachingDefs(v, e)
	if len(ds) != 1 || ds[0].rhs == nil {
		return nil
	}
	if as, ok := ds[0].node.(*ast.AssignStmt); ok && len(as.Lhs) != 1 {
		return nil
	}
	c, _ := ast.Unparen(ds[0].rhs).(*ast.CallExpr)
	return c
}
