package main

import (
	"fmt"
	"go/ast"
	"go/token"
	"go/types"
	"sort"
	"strings"
)

// Branch-condition inventory: the multiset of normalised boolean leaves of every branch condition
// (if / for / switch case) of a function. Comparison operators, constants (bounds from the
// specifications: 255-byte DSTs, key-size floors, flag masks) and resolved callees are part of the
// shape; locals are rendered by type. Inclusion rule against the frozen reference.

func (r *Run) condShapesOf(fd *FuncDecl) map[string]int {
	out := map[string]int{}
	r.condShapesRec(fd, out, map[*FuncDecl]bool{}, 0)
	return out
}

func (r *Run) condShapesRec(fd *FuncDecl, out map[string]int, seen map[*FuncDecl]bool, depth int) {
	if seen[fd] || depth > 8 {
		return
	}
	seen[fd] = true
	for _, u := range r.G.unitsOf(fd) {
		add := func(cond ast.Expr) {
			if cond == nil {
				return
			}
			if t := u.Info.TypeOf(cond); t == nil || !isBoolType(t) {
				return
			}
			ls := u.kLeaves(cond, 0)
			// `len(xs) > 0 && slices.ContainsFunc(xs, …)`: the length test in front of an element predicate is vacuous
			var ranged []ast.Expr
			for _, lf := range ls {
				if body, xs, _, _ := u.elemPredicate(lf); body != nil {
					ranged = append(ranged, xs)
				} else if c, ok := ast.Unparen(lf).(*ast.CallExpr); ok && isSlicesContains(u.Info, c) {
					ranged = append(ranged, c.Args[0])
				}
			}
			for _, lf := range ls {
				if len(ranged) > 0 && lenTestOf(u.Info, lf, ranged) {
					continue
				}
				if sh, ok := u.kLeafShape(lf); ok {
					out[sh] = 1
				}
			}
		}
		ast.Inspect(u.Body, func(n ast.Node) bool {
			if lit, ok := n.(*ast.FuncLit); ok && lit != u.Lit {
				return false
			}
			switch x := n.(type) {
			case *ast.IfStmt:
				add(x.Cond)
			case *ast.ForStmt:
				// the bound of a counting loop (`i < n`) is the loop's form, not a decision
				if be, ok := ast.Unparen(x.Cond).(*ast.BinaryExpr); ok && (be.Op == token.LSS || be.Op == token.LEQ) && identOf(be.X) != nil {
					break
				}
				add(x.Cond)
			case *ast.SwitchStmt:
				if x.Tag == nil {
					break
				}
				tag := u.kShape(x.Tag, 0)
				for _, cl := range x.Body.List {
					for _, e := range cl.(*ast.CaseClause).List {
						if tv, ok := u.Info.Types[e]; ok && tv.Value != nil {
							out[canonEq(tag, tv.Value.ExactString())] = 1
						}
					}
				}
			case *ast.CaseClause:
				for _, e := range x.List {
					if t := u.Info.TypeOf(e); t != nil && isBoolType(t) {
						add(e)
					}
				}
			case *ast.CallExpr:
				// conditions of unexported helpers count for their callers
				if h := r.unexportedHelper(u.Info, x); h != nil {
					r.condShapesRec(h, out, seen, depth+1)
				}
			}
			return true
		})
	}
}

func canonEq(l, r string) string {
	if l > r {
		l, r = r, l
	}
	return l + "==" + r
}

// kLeaves splits a condition into its boolean leaves; a boolean local with one reaching definition
// that is itself a comparison or connective is replaced by that definition (a condition cached in a
// local is still the same condition).
func (u *Unit) kLeaves(cond ast.Expr, depth int) []ast.Expr {
	var ls []leafInfo
	splitLeaves(cond, true, &ls)
	var out []ast.Expr
	for _, lf := range ls {
		e := stripNot(lf.expr)
		if id, ok := e.(*ast.Ident); ok && depth < 3 {
			if rhs := u.uniqueLocalDef(id); rhs != nil {
				switch ast.Unparen(rhs).(type) {
				case *ast.BinaryExpr, *ast.UnaryExpr:
					out = append(out, u.kLeaves(rhs, depth+1)...)
					continue
				}
			}
		}
		out = append(out, e)
	}
	return out
}

// uniqueLocalDef: the right-hand side of the single definition `x := rhs` / `x = rhs` reaching this
// use of a local (nil for parameters, fields, multi-value assignments and ambiguous definitions).
func (u *Unit) uniqueLocalDef(id *ast.Ident) ast.Expr {
	v, ok := u.Info.Uses[id].(*types.Var)
	if !ok || v.IsField() || u.paramShape(v) != "" {
		return nil
	}
	ds := u.reachingDefs(v, id)
	if len(ds) != 1 || ds[0].rhs == nil {
		return nil
	}
	if as, ok := ds[0].node.(*ast.AssignStmt); ok && len(as.Lhs) != 1 {
		return nil
	}
	return ds[0].rhs
}

// kLeafShape renders the leaves K1 tracks: comparisons in which one side is a compile-time constant
// other than nil (bounds, lengths, tags, masks, flag values) and comma-ok map membership tests.
// Operands are abstracted to their types, so caching a value in a local, renaming, ranging instead of
// indexing or moving the test into a helper does not change the shape; the operator (up to polarity)
// and the constant do.
func (u *Unit) kLeafShape(e ast.Expr) (string, bool) {
	e = stripNot(e)
	if id, ok := e.(*ast.Ident); ok {
		// v, ok := m[k]
		if v, isVar := u.Info.Uses[id].(*types.Var); isVar && !v.IsField() && u.paramShape(v) == "" {
			ds := u.reachingDefs(v, id)
			if len(ds) == 1 {
				if as, ok := ds[0].node.(*ast.AssignStmt); ok && len(as.Lhs) == 2 && len(as.Rhs) == 1 {
					if ix, ok := ast.Unparen(as.Rhs[0]).(*ast.IndexExpr); ok {
						if t := u.Info.TypeOf(ix.X); t != nil {
							if _, isMap := t.Underlying().(*types.Map); isMap {
								return "mapok(<" + shortType(t) + ">)", true
							}
						}
					}
				}
			}
		}
		return "", false
	}
	if c, ok := e.(*ast.CallExpr); ok && isSlicesContains(u.Info, c) {
		// slices.Contains(xs, 0) is the loop test `x == 0`
		if tv, has := u.Info.Types[c.Args[1]]; has && tv.Value != nil {
			if sl, isSl := u.Info.TypeOf(c.Args[0]).Underlying().(*types.Slice); isSl {
				return canonEq("<"+shortType(sl.Elem())+">", tv.Value.ExactString()), true
			}
		}
		return "", false
	}
	be, ok := e.(*ast.BinaryExpr)
	if !ok {
		return "", false
	}
	var op string
	switch be.Op {
	case token.EQL, token.NEQ:
		op = "=="
	case token.LSS, token.GEQ:
		op = "<"
	case token.LEQ, token.GTR:
		op = "<="
	default:
		return "", false
	}
	l, r := u.kShape(be.X, 0), u.kShape(be.Y, 0)
	if !isKConst(l) && !isKConst(r) {
		return "", false
	}
	if op == "==" {
		return canonEq(l, r), true
	}
	return l + op + r, true
}

func isKConst(s string) bool {
	if s == "" || s == "nil" || s == "true" || s == "false" {
		return false
	}
	return !strings.ContainsAny(s, "<(")
}

// kShape: constants by value, len/cap by name, arithmetic structurally, everything else by type;
// locals with a single non-call definition are replaced by it.
func (u *Unit) kShape(e ast.Expr, depth int) string {
	e = ast.Unparen(e)
	if tv, ok := u.Info.Types[e]; ok && tv.Value != nil {
		return tv.Value.ExactString()
	}
	switch x := e.(type) {
	case *ast.Ident:
		if _, ok := u.Info.Uses[x].(*types.Nil); ok {
			return "nil"
		}
		if depth < 3 {
			if rhs := u.uniqueLocalDef(x); rhs != nil {
				switch ast.Unparen(rhs).(type) {
				case *ast.BinaryExpr, *ast.UnaryExpr, *ast.BasicLit, *ast.IndexExpr:
					return u.kShape(rhs, depth+1)
				case *ast.CallExpr:
					if s := u.kShape(rhs, depth+1); strings.HasPrefix(s, "len(") || strings.HasPrefix(s, "cap(") {
						return s
					}
				}
			}
		}
	case *ast.BinaryExpr:
		return u.kShape(x.X, depth) + x.Op.String() + u.kShape(x.Y, depth)
	case *ast.UnaryExpr:
		if x.Op != token.AND {
			return x.Op.String() + u.kShape(x.X, depth)
		}
	case *ast.CallExpr:
		if id, ok := ast.Unparen(x.Fun).(*ast.Ident); ok {
			if b, ok := u.Info.Uses[id].(*types.Builtin); ok && (b.Name() == "len" || b.Name() == "cap") && len(x.Args) == 1 {
				return b.Name() + "(<" + shortType(u.Info.TypeOf(x.Args[0])) + ">)"
			}
		}
		if tv, ok := u.Info.Types[x.Fun]; ok && tv.IsType() && len(x.Args) == 1 {
			return u.kShape(x.Args[0], depth) // conversion
		}
	}
	return "<" + shortType(u.Info.TypeOf(e)) + ">"
}

type condRef struct {
	Comment   string                    `json:"comment"`
	Functions map[string]map[string]int `json:"functions"`
}

func (r *Run) EmitCondRef(name string, scope Scope) {
	ref := condRef{Comment: "frozen branch-condition inventory: function -> normalised condition leaf -> count", Functions: map[string]map[string]int{}}
	for _, fd := range r.Prog.FuncsIn(scope) {
		if m := r.condShapesOf(fd); len(m) > 0 {
			ref.Functions[FuncKey(fd.Obj)] = m
		}
	}
	writeJSON(refPath(name), ref)
}

func (r *Run) CheckCondInventory(rule, name string, scope Scope, min int) {
	r.Rule(rule, "branch-condition inventory: for every function of the frozen reference ("+name+") each comparison against a compile-time constant (bound, length, tag, mask, flag value; operands abstracted to their types, operator up to polarity) and each comma-ok map membership test still occurs, in the function or a helper it calls; an off-by-one in a bound, a flipped comparison or a changed constant is named")
	var ref condRef
	if err := readJSON(refPath(name), &ref); err != nil {
		r.FailKind("anchor-unresolved", rule, "ref:"+name, err.Error())
		return
	}
	byKey := map[string]*FuncDecl{}
	for _, fd := range r.Prog.FuncsIn(scope) {
		byKey[FuncKey(fd.Obj)] = fd
	}
	keys := []string{}
	for k := range ref.Functions {
		keys = append(keys, k)
	}
	sort.Strings(keys)
	n := 0
	for _, k := range keys {
		fd := byKey[k]
		if fd == nil {
			continue // renamed/removed functions are the guard inventory's concern
		}
		n++
		now := r.condShapesOf(fd)
		want := ref.Functions[k]
		ws := []string{}
		for w := range want {
			ws = append(ws, w)
		}
		sort.Strings(ws)
		ok := true
		for _, w := range ws {
			if now[w] == 0 {
				ok = false
				r.Fail(rule, k+" :: "+w, r.Prog.RelPos(fd.Decl.Pos()), fmt.Sprintf("comparison `%s` no longer occurs (comparisons now: %s)", w, strings.Join(keysOfInt(now), " ; ")))
			}
		}
		if ok {
			r.Pass(rule, k, r.Prog.RelPos(fd.Decl.Pos()), fmt.Sprintf("%d condition shapes present", len(want)))
		}
	}
	if m := len(ref.Functions) / 2; min > m {
		min = m // the frozen reference bounds how many functions can carry a tracked comparison
	}
	r.RequireCount(rule, "functions with tracked comparisons", n, min)
}

func keysOfInt(m map[string]int) []string {
	ks := []string{}
	for k := range m {
		ks = append(ks, k)
	}
	sort.Strings(ks)
	if len(ks) > 12 {
		ks = ks[:12]
	}
	return ks
}

var _ = types.Universe

// condShapeCanonical renders a boolean leaf independent of which branch it selects: `a != b` and
// `a == b`, `a >= b` and `a < b`, `a > b` and `a <= b`, `!f()` and `f()` are the same test with the
// branches swapped. Operand orientation of orderings is kept (`a < b` is not `b < a`).
func (u *Unit) condShapeCanonical(e ast.Expr) string {
	e = ast.Unparen(e)
	for {
		if ue, ok := e.(*ast.UnaryExpr); ok && ue.Op == token.NOT {
			e = ast.Unparen(ue.X)
			continue
		}
		break
	}
	if be, ok := e.(*ast.BinaryExpr); ok {
		l, r := u.condOperand(be.X), u.condOperand(be.Y)
		switch be.Op {
		case token.EQL, token.NEQ:
			if l > r {
				l, r = r, l
			}
			s := l + "==" + r
			if strings.Contains(s, "<error>") && strings.Contains(s, "nil") {
				return "err"
			}
			return s
		case token.LSS, token.GEQ:
			return l + "<" + r
		case token.LEQ, token.GTR:
			return l + "<=" + r
		}
		return u.shapeOf(be)
	}
	if _, ok := e.(*ast.CallExpr); ok {
		return "call"
	}
	return u.shapeOf(e)
}

// condOperand renders an operand of a comparison: locals with one reaching definition by that
// definition (caching a call in a local does not change the condition), calls as `call`.
func (u *Unit) condOperand(e ast.Expr) string {
	e = ast.Unparen(e)
	if id, ok := e.(*ast.Ident); ok {
		if v, ok := u.Info.Uses[id].(*types.Var); ok && !v.IsField() && u.paramShape(v) == "" {
			ds := u.reachingDefs(v, e)
			if len(ds) == 1 && ds[0].rhs != nil {
				switch rhs := ast.Unparen(ds[0].rhs).(type) {
				case *ast.CallExpr:
					if as, ok := ds[0].node.(*ast.AssignStmt); !ok || len(as.Lhs) == 1 {
						return u.shapeOf(rhs)
					}
				case *ast.SelectorExpr:
					// a field copied into a local (`n := dto.N; if n == nil`) is still that field
					if fv, ok := u.Info.Uses[rhs.Sel].(*types.Var); ok && fv.IsField() {
						if as, ok := ds[0].node.(*ast.AssignStmt); !ok || len(as.Lhs) == len(as.Rhs) {
							return u.shapeOf(rhs)
						}
					}
				}
			}
		}
	}
	return u.shapeOf(e)
}

func stripNot(e ast.Expr) ast.Expr {
	for {
		e = ast.Unparen(e)
		if ue, ok := e.(*ast.UnaryExpr); ok && ue.Op == token.NOT {
			e = ue.X
			continue
		}
		return e
	}
}

// definingCall: the operand is a local whose single reaching definition is `x := f(...)`.
func (u *Unit) definingCall(e ast.Expr) *ast.CallExpr {
	id, ok := ast.Unparen(e).(*ast.Ident)
	if !ok {
		return nil
	}
	v, ok := u.Info.Uses[id].(*types.Var)
	if !ok || v.IsField() || u.paramShape(v) != "" {
		return nil
	}
	ds := u.reachingDefs(v, e)
	if len(ds) != 1 || ds[0].rhs == nil {
		return nil
	}
	if as, ok := ds[0].node.(*ast.AssignStmt); ok && len(as.Lhs) != 1 {
		return nil
	}
	c, _ := ast.Unparen(ds[0].rhs).(*ast.CallExpr)
	return c
}

// lenTestOf: e compares len(x) for one of the given expressions x.
func lenTestOf(info *types.Info, e ast.Expr, xs []ast.Expr) bool {
	be, ok := ast.Unparen(e).(*ast.BinaryExpr)
	if !ok {
		return false
	}
	for _, side := range []ast.Expr{be.X, be.Y} {
		if c, ok := ast.Unparen(side).(*ast.CallExpr); ok && len(c.Args) == 1 {
			if id, ok := ast.Unparen(c.Fun).(*ast.Ident); ok {
				if b, ok := info.Uses[id].(*types.Builtin); ok && b.Name() == "len" {
					for _, x := range xs {
						if sameExpr(c.Args[0], x) {
							return true
						}
					}
				}
			}
		}
	}
	return false
}
