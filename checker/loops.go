package main

import (
	"fmt"
	"go/ast"
	"go/token"
	"go/types"
	"sort"
	"strings"
)

// Loop-bound engine (rule G6). A counted loop (`for i := a; i < B; i++`, `for i := range B`, `for _, x := range xs`)
// is described by where it starts, the condition under which it continues and its step, with every operand other
// than the loop variable abstracted to its type and compile-time constants folded (so renaming locals or caching
// `len(x)` in a variable does not change the descriptor, and the three spellings of a full walk over a slice are one
// descriptor). A loop is *partial* when its shape says it does not visit every index of its bound: it starts at a
// non-zero constant, continues under `i+1 < B` / `i <= B`, has a bound with a subtraction, division or shift in it,
// ranges over a proper sub-slice, or walks down without reaching 0.
//
// G6: in every function the frozen reference knows, a counted loop whose descriptor does not occur in that
// function's reference is reported (the bound, start or continuation condition of a walk was changed, or a walk was
// added over a different bound: a loop one element short, the significant bits instead of the announced length).
// In functions introduced after the reference was taken only partial loops are checked, against the partial loops
// of the reference functions of the same package (a helper extracted with its loop stays silent).
// Loops that disappear are not this rule's concern (G1/Q1/V1 decide what the loop body did).

type loopDesc struct {
	Desc    string
	Partial bool
	Pos     token.Pos
}

type loopRef struct {
	Comment   string
	Functions map[string][]string // function key -> sorted set of descriptors ("~" prefix: partial)
}

type loopCtx struct {
	info *types.Info
	defs map[types.Object]ast.Expr // locals assigned exactly once: their defining expression
	pkg  *types.Package
}

func (r *Run) loopsOf(fd *FuncDecl) []loopDesc {
	if fd.Decl.Body == nil {
		return nil
	}
	info := fd.Pkg.TypesInfo
	lc := &loopCtx{info: info, defs: map[types.Object]ast.Expr{}, pkg: fd.Pkg.Types}
	// single-assignment locals
	cnt := map[types.Object]int{}
	ast.Inspect(fd.Decl.Body, func(n ast.Node) bool {
		switch s := n.(type) {
		case *ast.AssignStmt:
			for i, l := range s.Lhs {
				id, ok := l.(*ast.Ident)
				if !ok {
					continue
				}
				o := info.ObjectOf(id)
				if o == nil {
					continue
				}
				cnt[o]++
				if len(s.Lhs) == len(s.Rhs) && (s.Tok == token.DEFINE || s.Tok == token.ASSIGN) {
					lc.defs[o] = s.Rhs[i]
				} else {
					cnt[o]++ // multi-value or compound assignment: not resolvable
				}
			}
		case *ast.IncDecStmt:
			if id, ok := s.X.(*ast.Ident); ok {
				if o := info.ObjectOf(id); o != nil {
					cnt[o] += 2
				}
			}
		case *ast.UnaryExpr:
			if s.Op == token.AND {
				if id, ok := ast.Unparen(s.X).(*ast.Ident); ok {
					if o := info.ObjectOf(id); o != nil {
						cnt[o] += 2
					}
				}
			}
		case *ast.RangeStmt:
			for _, e := range []ast.Expr{s.Key, s.Value} {
				if id, ok := e.(*ast.Ident); ok {
					if o := info.ObjectOf(id); o != nil {
						cnt[o] += 2
					}
				}
			}
		}
		return true
	})
	for o, c := range cnt {
		if c != 1 {
			delete(lc.defs, o)
		}
	}
	var out []loopDesc
	ast.Inspect(fd.Decl.Body, func(n ast.Node) bool {
		switch s := n.(type) {
		case *ast.RangeStmt:
			if d, partial, ok := lc.rangeDesc(s); ok {
				out = append(out, loopDesc{d, partial, s.Pos()})
			}
		case *ast.ForStmt:
			if d, partial, ok := lc.forDesc(s); ok {
				out = append(out, loopDesc{d, partial, s.Pos()})
			}
		}
		return true
	})
	return out
}

func (lc *loopCtx) rangeDesc(s *ast.RangeStmt) (string, bool, bool) {
	x := ast.Unparen(s.X)
	t := lc.info.TypeOf(x)
	if t == nil {
		return "", false, false
	}
	switch u := t.Underlying().(type) {
	case *types.Basic:
		if u.Info()&types.IsInteger != 0 {
			b, arith := lc.abs(x, nil, 0)
			return "from 0 while $i<" + b + " step ++", arith, true
		}
		if u.Info()&types.IsString != 0 {
			return "", false, false // rune iteration: not index-counted
		}
	case *types.Slice, *types.Array, *types.Pointer:
		if se, ok := x.(*ast.SliceExpr); ok {
			partial := false
			if se.Low != nil {
				if tv := lc.info.Types[se.Low]; tv.Value == nil || tv.Value.ExactString() != "0" {
					partial = true
				}
			}
			if !partial && se.High != nil && se.Max == nil {
				// `range x[:k]` walks the indices 0..k-1 like `for i := 0; i < k; i++`
				b, arith := lc.abs(se.High, nil, 0)
				return "from 0 while $i<" + b + " step ++", arith, true
			}
			if partial {
				b, _ := lc.abs(x, nil, 0)
				return "range " + b, true, true
			}
			x = se.X
		}
		at := t.Underlying()
		if pt, ok := at.(*types.Pointer); ok {
			at = pt.Elem().Underlying()
		}
		if arr, ok := at.(*types.Array); ok {
			return fmt.Sprintf("from 0 while $i<%d step ++", arr.Len()), false, true
		}
		b, _ := lc.abs(x, nil, 0)
		return "from 0 while $i<len(" + b + ") step ++", false, true
	}
	return "", false, false // maps, channels, iterator functions: no index bound
}

func (lc *loopCtx) forDesc(s *ast.ForStmt) (string, bool, bool) {
	as, ok := s.Init.(*ast.AssignStmt)
	if !ok || len(as.Lhs) != 1 || len(as.Rhs) != 1 {
		return "", false, false
	}
	id, ok := as.Lhs[0].(*ast.Ident)
	if !ok {
		return "", false, false
	}
	lv := lc.info.ObjectOf(id)
	cond, ok := ast.Unparen(s.Cond).(*ast.BinaryExpr)
	if lv == nil || !ok {
		return "", false, false
	}
	step := ""
	switch p := s.Post.(type) {
	case *ast.IncDecStmt:
		if pid, ok := p.X.(*ast.Ident); !ok || lc.info.ObjectOf(pid) != lv {
			return "", false, false
		}
		step = p.Tok.String()
	case *ast.AssignStmt:
		if len(p.Lhs) != 1 || len(p.Rhs) != 1 {
			return "", false, false
		}
		if pid, ok := p.Lhs[0].(*ast.Ident); !ok || lc.info.ObjectOf(pid) != lv {
			return "", false, false
		}
		k, _ := lc.abs(p.Rhs[0], lv, 0)
		step = p.Tok.String() + k
	default:
		return "", false, false
	}
	// loop variable on the left
	cx, cy, op := cond.X, cond.Y, cond.Op
	if !mentions(lc.info, cx, lv) && mentions(lc.info, cy, lv) {
		cx, cy = cy, cx
		switch op {
		case token.LSS:
			op = token.GTR
		case token.GTR:
			op = token.LSS
		case token.LEQ:
			op = token.GEQ
		case token.GEQ:
			op = token.LEQ
		}
	}
	if !mentions(lc.info, cx, lv) {
		return "", false, false // not a counted loop over its init variable
	}
	// `for i := 0; i < len(x); i++` walks x like `range x`
	initS, initArith := lc.abs(as.Rhs[0], lv, 0)
	lhs, _ := lc.abs(cx, lv, 0)
	rhs, rhsArith := lc.abs(cy, lv, 0)
	desc := fmt.Sprintf("from %s while %s%s%s step %s", initS, lhs, op, rhs, step)
	plainLHS := lhs == "$i"
	down := strings.HasPrefix(step, "--") || strings.HasPrefix(step, "-=")
	partial := false
	if !down {
		partial = initS != "0" || !plainLHS || !(op == token.LSS || op == token.NEQ) || rhsArith || mentions(lc.info, cy, lv)
	} else {
		switch {
		case plainLHS && op == token.GEQ && rhs == "0" && isMinusOne(lc.info, as.Rhs[0]):
		case plainLHS && op == token.GTR && rhs == "0" && !initArith:
		default:
			partial = true
		}
	}
	return desc, partial, true
}

func isMinusOne(info *types.Info, e ast.Expr) bool {
	b, ok := ast.Unparen(e).(*ast.BinaryExpr)
	if !ok || b.Op != token.SUB {
		return false
	}
	tv := info.Types[b.Y]
	return tv.Value != nil && tv.Value.ExactString() == "1"
}

func mentions(info *types.Info, e ast.Expr, o types.Object) bool {
	found := false
	ast.Inspect(e, func(n ast.Node) bool {
		if id, ok := n.(*ast.Ident); ok && info.ObjectOf(id) == o {
			found = true
		}
		return !found
	})
	return found
}

// abs renders an expression with the loop variable as $i, constants folded and every other variable abstracted to
// its type; the second result says whether the expression (syntactically, before folding) contains a subtraction,
// division or right shift (a bound that is deliberately short of its operand).
func (lc *loopCtx) abs(e ast.Expr, lv types.Object, depth int) (string, bool) {
	e = ast.Unparen(e)
	arith := false
	if b, ok := e.(*ast.BinaryExpr); ok && (b.Op == token.SUB || b.Op == token.QUO || b.Op == token.SHR) {
		arith = true
	}
	if tv, ok := lc.info.Types[e]; ok && tv.Value != nil {
		return tv.Value.ExactString(), arith
	}
	switch x := e.(type) {
	case *ast.Ident:
		o := lc.info.ObjectOf(x)
		if o != nil && o == lv {
			return "$i", false
		}
		if d, ok := lc.defs[o]; ok && depth < 3 && (lv == nil || !mentions(lc.info, d, lv)) {
			return lc.abs(d, lv, depth+1)
		}
		if _, isVar := o.(*types.Var); isVar {
			return "⟨" + lc.typeStr(o.Type()) + "⟩", false
		}
		return x.Name, false
	case *ast.SelectorExpr:
		if id, ok := x.X.(*ast.Ident); ok {
			if _, isPkg := lc.info.ObjectOf(id).(*types.PkgName); isPkg {
				return id.Name + "." + x.Sel.Name, false
			}
		}
		s, a := lc.abs(x.X, lv, depth)
		return s + "." + x.Sel.Name, a
	case *ast.CallExpr:
		// integer conversions are transparent
		if tv, ok := lc.info.Types[x.Fun]; ok && tv.IsType() && len(x.Args) == 1 {
			if bt, ok := tv.Type.Underlying().(*types.Basic); ok && bt.Info()&types.IsInteger != 0 {
				return lc.abs(x.Args[0], lv, depth)
			}
		}
		f, a := lc.abs(x.Fun, lv, depth)
		parts := []string{}
		for _, arg := range x.Args {
			s, aa := lc.abs(arg, lv, depth)
			a = a || aa
			parts = append(parts, s)
		}
		return f + "(" + strings.Join(parts, ",") + ")", a
	case *ast.BinaryExpr:
		l, a1 := lc.abs(x.X, lv, depth)
		rr, a2 := lc.abs(x.Y, lv, depth)
		return l + x.Op.String() + rr, arith || a1 || a2
	case *ast.UnaryExpr:
		s, a := lc.abs(x.X, lv, depth)
		return x.Op.String() + s, a
	case *ast.StarExpr:
		return lc.abs(x.X, lv, depth)
	case *ast.IndexExpr:
		s, a := lc.abs(x.X, lv, depth)
		i, a2 := lc.abs(x.Index, lv, depth)
		return s + "[" + i + "]", a || a2
	case *ast.SliceExpr:
		s, _ := lc.abs(x.X, lv, depth)
		lo, hi := "", ""
		if x.Low != nil {
			lo, _ = lc.abs(x.Low, lv, depth)
		}
		if x.High != nil {
			hi, _ = lc.abs(x.High, lv, depth)
		}
		return s + "[" + lo + ":" + hi + "]", true
	}
	if t := lc.info.TypeOf(e); t != nil {
		return "⟨" + lc.typeStr(t) + "⟩", arith
	}
	return fmt.Sprintf("%T", e), arith
}

func (lc *loopCtx) typeStr(t types.Type) string {
	return types.TypeString(t, func(p *types.Package) string { return p.Name() })
}

func descKey(d loopDesc) string {
	if d.Partial {
		return "~" + d.Desc
	}
	return d.Desc
}

// loopScopes: every scope the property's other inventories look at, plus the generic scalar-operation helpers
// (double-and-add walks) for the properties whose primitives are built on them.
func loopScopes(spec *propSpec) []Scope {
	out := []Scope{spec.Scope}
	if len(spec.SeqScope.Include) > 0 {
		out = append(out, spec.SeqScope)
	}
	for _, x := range spec.Extra {
		out = append(out, x.Scope)
	}
	switch spec.ID {
	case "C13", "C15", "C16", "C18":
		out = append(out, Scope{Include: []string{"pkg/base/utils/algebrautils/"}})
	}
	return out
}

func (r *Run) funcsInAny(scopes []Scope) []*FuncDecl {
	seen := map[string]bool{}
	var out []*FuncDecl
	for _, s := range scopes {
		for _, fd := range r.Prog.FuncsIn(s) {
			k := FuncKey(fd.Obj)
			if !seen[k] {
				seen[k] = true
				out = append(out, fd)
			}
		}
	}
	sort.Slice(out, func(i, j int) bool { return FuncKey(out[i].Obj) < FuncKey(out[j].Obj) })
	return out
}

func (r *Run) EmitLoopRef(name string, scopes []Scope) {
	ref := loopRef{Comment: "frozen loop-bound inventory: function -> set of counted-loop descriptors (~ = partial walk)", Functions: map[string][]string{}}
	for _, fd := range r.funcsInAny(scopes) {
		set := map[string]bool{}
		for _, d := range r.loopsOf(fd) {
			set[descKey(d)] = true
		}
		if len(set) == 0 {
			continue
		}
		ks := []string{}
		for k := range set {
			ks = append(ks, k)
		}
		sort.Strings(ks)
		ref.Functions[FuncKey(fd.Obj)] = ks
	}
	writeJSON(refPath(name), ref)
}

func pkgOfKey(k string) string {
	if i := strings.Index(k, ".("); i >= 0 {
		return k[:i]
	}
	if i := strings.LastIndex(k, "."); i >= 0 {
		return k[:i]
	}
	return k
}

func (r *Run) CheckLoopBounds(rule, name string, scopes []Scope, min int) {
	r.Rule(rule, "no new loop bound: in every function the frozen reference ("+name+") knows, each counted loop (3-clause for, range over an integer, slice or array) has a start, continuation condition and step (operands abstracted to their types, constants folded, single-assignment locals resolved, the spellings of a full walk unified) that already occurs in that function's reference; in functions added since, each *partial* walk (non-zero start, `i+1<B`, `<=`, a bound with -, / or >>, a proper sub-slice) already occurs in the reference of the same package. A walk one element short or over a different length is named")
	var ref loopRef
	if err := readJSON(refPath(name), &ref); err != nil {
		r.FailKind("anchor-unresolved", rule, "ref:"+name, err.Error())
		return
	}
	if m := len(ref.Functions) * 3 / 4; m > min {
		min = m // the frozen reference is the hand-confirmed instance count
	}
	pkgPartial := map[string]map[string]bool{}
	for k, ds := range ref.Functions {
		p := pkgOfKey(k)
		if pkgPartial[p] == nil {
			pkgPartial[p] = map[string]bool{}
		}
		for _, d := range ds {
			if strings.HasPrefix(d, "~") {
				pkgPartial[p][d] = true
			}
		}
	}
	nLoops, nFuncs := 0, 0
	for _, fd := range r.funcsInAny(scopes) {
		k := FuncKey(fd.Obj)
		loops := r.loopsOf(fd)
		if len(loops) == 0 {
			continue
		}
		isKnown := r.G == nil || r.G.known == nil || r.G.known[k]
		refSet := map[string]bool{}
		for _, d := range ref.Functions[k] {
			refSet[d] = true
			// a walk recorded as full is the same walk if a later edit makes its shape look partial, and vice versa
			refSet[strings.TrimPrefix(d, "~")] = true
		}
		// a full walk over a bound the reference does not have is reported only when it *replaces* one: some
		// reference walk of this function no longer occurs (an added loop over a new collection is not a changed bound)
		nowSet := map[string]bool{}
		for _, d := range loops {
			nowSet[d.Desc] = true
		}
		replaced := ""
		for _, d := range ref.Functions[k] {
			if !nowSet[strings.TrimPrefix(d, "~")] {
				replaced = strings.TrimPrefix(d, "~")
				break
			}
		}
		bad := false
		seen := map[string]bool{}
		for _, d := range loops {
			nLoops++
			dk := descKey(d)
			if seen[dk] {
				continue
			}
			seen[dk] = true
			if isKnown {
				if !refSet[d.Desc] && (d.Partial || replaced != "") {
					bad = true
					kind := "loop"
					if d.Partial {
						kind = "partial loop"
					}
					r.Fail(rule, k+" :: "+dk, r.Prog.RelPos(d.Pos), fmt.Sprintf("%s `%s` does not occur in the reference of this function: the start, bound or continuation condition of a walk changed (reference: %s)", kind, d.Desc, strings.Join(ref.Functions[k], " ; ")))
				}
			} else if d.Partial && !pkgPartial[pkgOfKey(k)][dk] {
				bad = true
				r.Fail(rule, k+" :: "+dk, r.Prog.RelPos(d.Pos), fmt.Sprintf("partial loop `%s` in a function added since the reference does not occur in any reference function of package %s", d.Desc, pkgOfKey(k)))
			}
		}
		if !bad {
			nFuncs++
			r.Pass(rule, k, r.Prog.RelPos(fd.Decl.Pos()), fmt.Sprintf("%d counted loops, all with reference bounds", len(loops)))
		}
	}
	r.Analysed[rule+" counted loops"] += nLoops
	r.Analysed[rule+" functions with loops"] += nFuncs
	if nFuncs < min {
		r.FailKind("vacuous", rule, "instance-count", fmt.Sprintf("only %d functions with counted loops analysed, expected at least %d", nFuncs, min))
	}
}
