package main

import (
	"fmt"
	"go/ast"
	"go/token"
	"go/types"
	"regexp"
	"sort"
	"strings"

	"golang.org/x/tools/go/types/typeutil"
)

var resultIndexRe = regexp.MustCompile(`\)#\d$`)

// argShape renders an operand of a guard call in a way that is stable under renaming of locals
// and under caching a value in a local: constants by value, fields by name, parameters by
// position, locals with a unique reaching definition by the shape of that definition, calls by
// method name.
func (u *Unit) argShape(e ast.Expr, at ast.Node, depth int) string {
	e = ast.Unparen(e)
	if e == nil {
		return "?"
	}
	if tv, ok := u.Info.Types[e]; ok && tv.Value != nil {
		return tv.Value.ExactString()
	}
	switch x := e.(type) {
	case *ast.Ident:
		switch o := u.Info.Uses[x].(type) {
		case *types.Nil:
			return "nil"
		case *types.Const:
			return o.Name()
		case *types.Var:
			if o.IsField() {
				return "." + o.Name()
			}
			if o.Pkg() != nil && o.Parent() == o.Pkg().Scope() {
				return o.Pkg().Name() + "." + o.Name()
			}
			if s := u.paramShape(o); s != "" {
				return s
			}
			if s := u.forIndexShape(o); s != "" {
				return s
			}
			if depth < 4 {
				ds := u.reachingDefs(o, at)
				if len(ds) == 1 && ds[0].rhs != nil {
					d := ds[0]
					// multi-value definition: x, err := f() → f()#i
					if as, ok := d.node.(*ast.AssignStmt); ok && len(as.Rhs) == 1 && len(as.Lhs) > 1 {
						for i, l := range as.Lhs {
							if id := identOf(l); id != nil && (u.Info.Defs[id] == o || u.Info.Uses[id] == o) {
								if hs := u.helperResultShape(d.rhs, i, depth); hs != "" {
									return hs
								}
								if u.aliasHops < 10 {
									u.aliasHops++
									defer func() { u.aliasHops-- }()
									return u.argShape(d.rhs, d.node, depth) + "#" + itoa(i)
								}
								return u.argShape(d.rhs, d.node, depth+1) + "#" + itoa(i)
							}
						}
					}
					if hs := u.helperResultShape(d.rhs, 0, depth); hs != "" {
						return hs
					}
					// following a local to its only definition costs no depth: `x := f(); g(x)` is `g(f())`; the depth
					// budget counts the nesting of the expanded expression only (hop guard against pathological chains)
					if u.aliasHops < 10 {
						u.aliasHops++
						defer func() { u.aliasHops-- }()
						return u.argShape(d.rhs, d.node, depth)
					}
					return u.argShape(d.rhs, d.node, depth+1)
				}
				if len(ds) >= 2 && len(ds) <= 4 && depth < 2 {
					// several definitions reach this use: render each with the conditions it is assigned under,
					// so that moving an assignment under another condition changes the shape
					var alts []string
					for _, d := range ds {
						sh := "zero"
						if d.rhs != nil {
							if mentionsVar(u.Info, d.rhs, o) {
								sh = "upd"
							} else {
								sh = u.argShape(d.rhs, d.node, depth+2)
							}
						}
						if c := u.condContext(d.node); c != "" {
							sh += "@" + c
						}
						alts = append(alts, sh)
					}
					sort.Strings(alts)
					return "phi(" + strings.Join(alts, " | ") + ")"
				}
				if len(ds) == 0 {
					// range variable or closure capture
					if rs := u.rangeSource(o); rs != "" {
						return rs
					}
				}
			}
			return "<" + shortType(o.Type()) + ">"
		case *types.Func:
			return o.Name()
		case *types.TypeName:
			return o.Name()
		}
		return x.Name
	case *ast.SelectorExpr:
		if o, ok := u.Info.Uses[x.Sel].(*types.Var); ok && o.IsField() {
			return "." + o.Name()
		}
		if id := identOf(x.X); id != nil {
			if _, isPkg := u.Info.Uses[id].(*types.PkgName); isPkg {
				return id.Name + "." + x.Sel.Name
			}
		}
		return u.argShape(x.X, at, depth) + "." + x.Sel.Name
	case *ast.CallExpr:
		if tv, ok := u.Info.Types[x.Fun]; ok && tv.IsType() && len(x.Args) == 1 {
			// a conversion to a sized integer type fixes a width (encodings, truncation): it is kept; conversions
			// between named types of the same representation are noise
			if b, ok := tv.Type.(*types.Basic); ok {
				switch b.Kind() {
				case types.Uint16, types.Uint32, types.Uint64, types.Int16, types.Int32, types.Int64:
					return types.Typ[b.Kind()].Name() + "(" + u.argShape(x.Args[0], at, depth) + ")"
				}
			}
			return u.argShape(x.Args[0], at, depth)
		}
		if hs := u.helperResultShape(x, 0, depth); hs != "" {
			return hs
		}
		name := "call"
		switch f := ast.Unparen(x.Fun).(type) {
		case *ast.IndexListExpr:
			if s, ok := ast.Unparen(f.X).(*ast.SelectorExpr); ok {
				name = s.Sel.Name
			} else if id := identOf(f.X); id != nil {
				name = id.Name
			}
		case *ast.Ident:
			name = f.Name
		case *ast.SelectorExpr:
			name = f.Sel.Name
			if _, isPkg := u.Info.Uses[identOfOrNil(f.X)].(*types.PkgName); !isPkg {
				// method chains are bounded by syntax: walking down the receiver chain costs no depth; only
				// following a local variable to its definition does
				nd := depth
				if nd < 5 {
					base := u.argShape(f.X, at, nd)
					if strings.HasPrefix(base, ".") || strings.HasSuffix(base, ")") || strings.HasPrefix(base, "$") || resultIndexRe.MatchString(base) {
						name = base + "." + name
					}
				}
			}
		case *ast.IndexExpr:
			if s, ok := ast.Unparen(f.X).(*ast.SelectorExpr); ok {
				name = s.Sel.Name
			} else if id := identOf(f.X); id != nil {
				name = id.Name
			}
		}
		if id, ok := ast.Unparen(x.Fun).(*ast.Ident); ok {
			if _, isB := u.Info.Uses[id].(*types.Builtin); isB {
				as := []string{}
				for _, a := range x.Args {
					as = append(as, u.argShape(a, at, depth+1))
				}
				return name + "(" + strings.Join(as, ",") + ")"
			}
		}
		// standard-library package functions (binary.BigEndian.AppendUint64, slices.Concat, …): keep operands
		if f, _ := typeutil.Callee(u.Info, x).(*types.Func); f != nil && f.Pkg() != nil && !strings.Contains(strings.SplitN(f.Pkg().Path(), "/", 2)[0], ".") && depth < 3 && len(x.Args) <= 8 {
			as := []string{}
			for _, a := range x.Args {
				as = append(as, u.argShape(a, at, depth+1))
			}
			return name + "(" + strings.Join(as, ",") + ")"
		}
		return name + "()"
	case *ast.UnaryExpr:
		return x.Op.String() + u.argShape(x.X, at, depth)
	case *ast.StarExpr:
		return "*" + u.argShape(x.X, at, depth)
	case *ast.BinaryExpr:
		return u.argShape(x.X, at, depth) + x.Op.String() + u.argShape(x.Y, at, depth)
	case *ast.IndexExpr:
		return u.argShape(x.X, at, depth) + "[" + u.argShape(x.Index, at, depth+1) + "]"
	case *ast.SliceExpr:
		lo, hi := "", ""
		if x.Low != nil {
			lo = u.argShape(x.Low, at, depth+1)
		}
		if x.High != nil {
			hi = u.argShape(x.High, at, depth+1)
		}
		return u.argShape(x.X, at, depth) + "[" + lo + ":" + hi + "]"
	case *ast.CompositeLit:
		if len(x.Elts) > 0 && len(x.Elts) <= 3 && depth < 3 {
			es := []string{}
			for _, el := range x.Elts {
				if kv, ok := el.(*ast.KeyValueExpr); ok {
					es = append(es, u.argShape(kv.Value, at, depth+1))
				} else {
					es = append(es, u.argShape(el, at, depth+1))
				}
			}
			return "lit:" + shortType(u.Info.TypeOf(x)) + "{" + strings.Join(es, ",") + "}"
		}
		return "lit:" + shortType(u.Info.TypeOf(x))
	case *ast.FuncLit:
		return "func"
	case *ast.TypeAssertExpr:
		return u.argShape(x.X, at, depth)
	}
	return "<" + shortType(u.Info.TypeOf(e)) + ">"
}

func identOfOrNil(e ast.Expr) *ast.Ident {
	if id := identOf(e); id != nil {
		return id
	}
	return &ast.Ident{}
}

func itoa(i int) string { return string(rune('0' + i%10)) }

// paramShape: "$recv" / "$i" for parameters of the enclosing declaration (or literal).
func (u *Unit) paramShape(v *types.Var) string {
	check := func(sig *types.Signature, pfx string) string {
		if sig == nil {
			return ""
		}
		if sig.Recv() == v {
			return "$recv"
		}
		for i := 0; i < sig.Params().Len(); i++ {
			if sig.Params().At(i) == v {
				return pfx + itoa(i)
			}
		}
		return ""
	}
	if s := check(u.Fn.Obj.Type().(*types.Signature), "$"); s != "" {
		return s
	}
	if u.Lit != nil {
		if s := check(u.Sig, "$lit"); s != "" {
			return s
		}
	}
	return ""
}

// rangeSource: for a range variable, "each(<shape of ranged expr>)".
func (u *Unit) rangeSource(v *types.Var) string {
	var out string
	ast.Inspect(u.Fn.Decl.Body, func(n ast.Node) bool {
		if out != "" {
			return false
		}
		rs, ok := n.(*ast.RangeStmt)
		if !ok {
			return true
		}
		for i, kv := range []ast.Expr{rs.Key, rs.Value} {
			if id := identOf(kv); id != nil && u.Info.Defs[id] == v {
				which := "key"
				if i == 1 {
					which = "val"
				}
				out = which + "(" + u.argShape(rs.X, rs.X, 3) + ")"
				return false
			}
		}
		return true
	})
	return out
}

// renderCall renders one call (receiver → arguments) in this unit.
func (u *Unit) renderCall(c *ast.CallExpr) string {
	k := u.calleeKey(c)
	if k == "" {
		return ""
	}
	short := k
	if i := strings.LastIndexByte(k, '.'); i >= 0 {
		short = k[i+1:]
	}
	var as []string
	if sel, ok := ast.Unparen(c.Fun).(*ast.SelectorExpr); ok {
		if f, ok := typeutil.Callee(u.Info, c).(*types.Func); ok && f.Type().(*types.Signature).Recv() != nil {
			as = append(as, u.argShape(sel.X, c, 0)+"→")
		}
	}
	for _, arg := range c.Args {
		as = append(as, u.argShape(arg, c, 0))
	}
	return short + "(" + strings.Join(as, ", ") + ")"
}

type extraArg struct {
	text string
	skip int // number of leading parameter substitutions that do not apply (the text is already in the caller's terms)
}

// ArgSig renders the operands of the calls behind an atom.
func (a *Atom) ArgSig() string {
	u := a.Unit
	var parts []string
	at := ast.Node(a.Leaf)
	if a.Leaf == nil && len(a.Calls) > 0 {
		at = a.Calls[0]
	}
	for _, c := range a.Calls {
		k := u.calleeKey(c)
		if k == "" {
			continue
		}
		short := k
		if i := strings.LastIndexByte(k, '.'); i >= 0 {
			short = k[i+1:]
		}
		var as []string
		if sel, ok := ast.Unparen(c.Fun).(*ast.SelectorExpr); ok {
			if f, ok := typeutil.Callee(u.Info, c).(*types.Func); ok && f.Type().(*types.Signature).Recv() != nil {
				as = append(as, u.argShape(sel.X, c, 0)+"→")
			}
		}
		for _, arg := range c.Args {
			as = append(as, u.argShape(arg, c, 0))
		}
		parts = append(parts, short+"("+strings.Join(as, ", ")+")")
	}
	if len(parts) == 0 && len(a.ExtraArgs) == 0 && a.Leaf != nil {
		return ""
	}
	_ = at
	for i := range parts {
		parts[i] = applySubsts(parts[i], a.Substs)
	}
	// calls that computed, at a call site further out, a value this atom tests (rendered there)
	for _, x := range a.ExtraArgs {
		if x.skip <= len(a.Substs) {
			parts = append(parts, applySubsts(x.text, a.Substs[x.skip:]))
		}
	}
	sort.Strings(parts)
	out := strings.Join(parts, " ; ")
	// the conditions under which a (non-MUST) check runs are part of what it checks: nesting it under a
	// further condition (a cache hit, a mode flag) changes the shape
	if a.Leaf != nil && !a.Must {
		cc := u.condContext(a.Leaf)
		if a.CtxOuter != "" {
			if cc != "" {
				cc = a.CtxOuter + "," + cc
			} else {
				cc = a.CtxOuter
			}
		}
		if cc != "" {
			out += " ?" + applySubsts(cc, a.Substs)
		}
	}
	return out
}

// ---------- G8: loop-carried flags ----------

// checkLoopFlags: a guard outside a loop that tests a flag-like variable whose reaching definition
// lies inside that loop and neither accumulates (x = x && ..., x &= ..., append(x, ...)), nor is
// constant, nor is itself tested inside the loop, only sees the last iteration.
func checkLoopFlags(r *Run, rule string, scope Scope) {
	r.Rule(rule, "no last-iteration-only flags: a guard placed after a loop never tests a flag that each iteration overwrites (instead of accumulating) without testing it inside the loop")
	n := 0
	for _, fd := range r.Prog.FuncsIn(scope) {
		for _, u := range r.G.unitsOf(fd) {
			for _, a := range u.Atoms {
				if a.Unit != u || a.Leaf == nil {
					continue
				}
				ast.Inspect(a.Leaf, func(x ast.Node) bool {
					id, ok := x.(*ast.Ident)
					if !ok {
						return true
					}
					v, ok := u.Info.Uses[id].(*types.Var)
					if !ok || v.IsField() || !flagLike(v.Type()) {
						return true
					}
					for _, d := range u.reachingDefs(v, a.Leaf) {
						loop := enclosingLoop(u.Body, d.node)
						if loop == nil || (loop.Pos() <= a.Leaf.Pos() && a.Leaf.End() <= loop.End()) {
							continue
						}
						n++
						if d.rhs == nil || mentionsVar(u.Info, d.rhs, v) {
							continue
						}
						if tv, ok := u.Info.Types[d.rhs]; ok && tv.Value != nil {
							continue
						}
						if as, ok := d.node.(*ast.AssignStmt); ok && as.Tok != token.ASSIGN && as.Tok != token.DEFINE {
							continue
						}
						// tested inside the loop after the definition?
						tested := false
						for _, o := range u.Atoms {
							if o.Unit == u && o.Leaf != nil && o.Leaf.Pos() > d.node.Pos() && o.Leaf.End() <= loop.End() && mentionsVar(u.Info, o.Leaf, v) {
								tested = true
							}
						}
						// a `break`/`return` right after the definition inside the loop also makes the last value the relevant one
						if tested || loopExitsAfter(loop, d.node) {
							continue
						}
						r.Fail(rule, FuncKey(fd.Obj)+" :: "+v.Name(), r.Prog.RelPos(d.node.Pos()), "flag `"+v.Name()+"` is overwritten in every iteration and only tested after the loop: only the last iteration is checked")
					}
					return true
				})
			}
		}
	}
	r.Analysed[rule+" loop-defined flags"] = n
	r.Pass(rule, "all-flags", "", fmt.Sprintf("%d loop-defined flag uses inspected", n))
}

func enclosingLoop(body *ast.BlockStmt, n ast.Node) ast.Node {
	var best ast.Node
	ast.Inspect(body, func(x ast.Node) bool {
		switch x.(type) {
		case *ast.ForStmt, *ast.RangeStmt:
			if x.Pos() <= n.Pos() && n.End() <= x.End() {
				best = x
			}
		}
		return true
	})
	return best
}

func mentionsVar(info *types.Info, e ast.Node, v *types.Var) bool {
	res := false
	ast.Inspect(e, func(x ast.Node) bool {
		if id, ok := x.(*ast.Ident); ok && info.Uses[id] == v {
			res = true
		}
		return true
	})
	return res
}

// loopExitsAfter: the statement list containing def continues with a break/return (directly or in an if testing anything).
func loopExitsAfter(loop ast.Node, def ast.Node) bool {
	res := false
	ast.Inspect(loop, func(n ast.Node) bool {
		bs, ok := n.(*ast.BlockStmt)
		if !ok {
			return true
		}
		for i, s := range bs.List {
			if s.Pos() <= def.Pos() && def.End() <= s.End() {
				for _, t := range bs.List[i+1:] {
					switch x := t.(type) {
					case *ast.BranchStmt:
						if x.Tok == token.BREAK {
							res = true
						}
					case *ast.ReturnStmt:
						res = true
					}
				}
			}
		}
		return true
	})
	return res
}

// condContext renders the chain of if-conditions (outermost first) under which node n executes,
// up to the nearest enclosing loop or literal.
func (u *Unit) condContext(n ast.Node) string {
	parts := u.condContextParts(n)
	return strings.Join(parts, ",")
}

// condContextParts walks the ancestors of n: `if`/`else` branches and the clauses of tagless switches
// (rendered as the equivalent else-if chain) that are mode conditions (not guards).
func (u *Unit) condContextParts(n ast.Node) []string {
	path := pathTo(u.Body, n)
	var parts []string
	isGuard := func(cond ast.Expr) bool {
		b := u.BlockOf(cond)
		return b != nil && len(b.Succs) == 2 && (u.FR[b.Succs[0]] || u.FR[b.Succs[1]])
	}
	for i := 0; i+1 < len(path); i++ {
		switch s := path[i].(type) {
		case *ast.FuncLit:
			if s != u.Lit {
				parts = nil
			}
		case *ast.BlockStmt:
			parts = append(parts, u.earlyReturnContext(s.List, path[i+1], isGuard)...)
		case *ast.CaseClause:
			parts = append(parts, u.earlyReturnContext(s.Body, path[i+1], isGuard)...)
		case *ast.IfStmt:
			child := path[i+1]
			if child != ast.Node(s.Body) && (s.Else == nil || child != s.Else) {
				continue
			}
			if isGuard(s.Cond) || u.isConjWrapper(s) {
				continue
			}
			parts = append(parts, u.ctxPart(child == ast.Node(s.Body), s.Cond))
		case *ast.SwitchStmt:
			if i+2 >= len(path) {
				continue
			}
			cc, ok := path[i+2].(*ast.CaseClause)
			if !ok {
				continue
			}
			if s.Tag != nil && u.isConjWrapper(cc) {
				continue
			}
			if s.Tag != nil {
				// `switch x { case c: …}` is `if x == c {…}`; the default clause is the else of every case
				tag := u.argShape(s.Tag, s.Tag, 3)
				eq := func(e ast.Expr) string {
					l, r := tag, u.argShape(e, e, 3)
					if l > r {
						l, r = r, l
					}
					return l + "==" + r
				}
				if len(cc.List) == 0 {
					for _, st := range s.Body.List {
						for _, e := range st.(*ast.CaseClause).List {
							parts = append(parts, "else("+eq(e)+")")
						}
					}
				} else if len(cc.List) == 1 {
					parts = append(parts, "if("+eq(cc.List[0])+")")
				} else {
					var alts []string
					for _, e := range cc.List {
						alts = append(alts, "if("+eq(e)+")")
					}
					sort.Strings(alts)
					parts = append(parts, "any("+strings.Join(alts, "|")+")")
				}
				continue
			}
			// clauses before cc are the failed alternatives
			for _, st := range s.Body.List {
				c := st.(*ast.CaseClause)
				if c == cc {
					break
				}
				for _, e := range c.List {
					if !isGuard(e) {
						parts = append(parts, u.ctxPart(false, e))
					}
				}
			}
			for _, e := range cc.List {
				if !isGuard(e) {
					parts = append(parts, u.ctxPart(true, e))
				}
			}
		}
	}
	return parts
}

// ctxPart renders one enclosing mode condition independent of how the branch is written:
// `if a != b {X}` is `else(a==b)`, `if !(c) {X}` is `else(c)`, `if a >= b` is `else(a<b)`, and by De Morgan
// `if A && B {X}` is `if(A),if(B)` exactly like `if !A || !B { return }; X`.
func (u *Unit) ctxPart(taken bool, cond ast.Expr) string {
	return strings.Join(u.ctxParts(taken, cond), ",")
}

func (u *Unit) ctxParts(taken bool, cond ast.Expr) []string {
	cond = ast.Unparen(cond)
	for {
		ue, ok := cond.(*ast.UnaryExpr)
		if !ok || ue.Op != token.NOT {
			break
		}
		cond = ast.Unparen(ue.X)
		taken = !taken
	}
	if be, ok := cond.(*ast.BinaryExpr); ok && (be.Op == token.LAND || be.Op == token.LOR) {
		if (be.Op == token.LAND) == taken {
			// conjunction of the operands' literals
			return append(u.ctxParts(taken, be.X), u.ctxParts(taken, be.Y)...)
		}
		alts := []string{strings.Join(u.ctxParts(taken, be.X), "&"), strings.Join(u.ctxParts(taken, be.Y), "&")}
		sort.Strings(alts)
		return []string{"any(" + strings.Join(alts, "|") + ")"}
	}
	if id, ok := cond.(*ast.Ident); ok && u.ctxHops < 3 {
		// a condition cached in a local (`has := x != nil; if has`) is still that condition
		if rhs := u.uniqueLocalDef(id); rhs != nil {
			switch ast.Unparen(rhs).(type) {
			case *ast.BinaryExpr, *ast.UnaryExpr:
				u.ctxHops++
				defer func() { u.ctxHops-- }()
				return u.ctxParts(taken, rhs)
			}
		}
	}
	text := ""
	if be, ok := cond.(*ast.BinaryExpr); ok {
		op := ""
		switch be.Op {
		case token.EQL:
			op = "=="
		case token.NEQ:
			op, taken = "==", !taken
		case token.LSS:
			op = "<"
		case token.GEQ:
			op, taken = "<", !taken
		case token.LEQ:
			op = "<="
		case token.GTR:
			op, taken = "<=", !taken
		}
		if op != "" {
			l, r := u.argShape(be.X, cond, 3), u.argShape(be.Y, cond, 3)
			if op == "==" && l > r {
				l, r = r, l
			}
			text = l + op + r
		}
	}
	if text == "" {
		if id, ok := cond.(*ast.Ident); ok {
			// a boolean local (flag, comma-ok, helper result) – how it was computed is the guards' concern
			if v, ok := u.Info.Uses[id].(*types.Var); ok && !v.IsField() && u.paramShape(v) == "" {
				text = "<bool>"
			}
		}
	}
	if text == "" {
		text = u.argShape(cond, cond, 3)
	}
	if taken {
		return []string{"if(" + text + ")"}
	}
	return []string{"else(" + text + ")"}
}

// earlyReturnContext: statements that follow `if c { ...; return <success> }` run under else(c), exactly
// as if they were written in the else branch (early-return inversion does not change the context).
func (u *Unit) earlyReturnContext(list []ast.Stmt, child ast.Node, isGuard func(ast.Expr) bool) []string {
	var parts []string
	for _, st := range list {
		if ast.Node(st) == child {
			break
		}
		is, ok := st.(*ast.IfStmt)
		if !ok || is.Else != nil || len(is.Body.List) == 0 || isGuard(is.Cond) {
			continue
		}
		if u.isConjWrapper(is) && u.earlyWrappers[is] {
			continue // merged into the checks that follow as a conjunct
		}
		switch last := is.Body.List[len(is.Body.List)-1].(type) {
		case *ast.ReturnStmt:
		case *ast.BranchStmt:
			// `if c { continue }; rest` is `if !c { rest }` for the rest of the loop body
			if last.Tok != token.CONTINUE {
				continue
			}
		default:
			continue
		}
		if b := u.BlockOf(is.Body.List[len(is.Body.List)-1]); b != nil && u.FR[b] {
			continue
		}
		parts = append(parts, u.ctxPart(false, is.Cond))
	}
	return parts
}

func (u *Unit) condContextOld(n ast.Node) string {
	ifs := u.enclosingIfsOpt(n, false)
	var parts []string
	for i := len(ifs) - 1; i >= 0; i-- {
		s := ifs[i]
		// an `if` one of whose branches only fails is a guard, not a mode switch: code nested in its
		// surviving branch is as unconditional as code placed after an early return
		if b := u.BlockOf(s.Cond); b != nil && len(b.Succs) == 2 && (u.FR[b.Succs[0]] || u.FR[b.Succs[1]]) {
			continue
		}
		br := "if"
		if s.Else != nil && s.Else.Pos() <= n.Pos() && n.End() <= s.Else.End() {
			br = "else"
		}
		parts = append(parts, br+"("+u.argShape(s.Cond, s.Cond, 3)+")")
	}
	return strings.Join(parts, ",")
}

// forIndexShape: the index of `for i := 0; i < N; i++` is rendered like the key of `for i := range N`
// (and `i < len(xs)` like the key of `range xs`), so the two loop forms give the same operand shapes.
func (u *Unit) forIndexShape(v *types.Var) string {
	var out string
	ast.Inspect(u.Fn.Decl.Body, func(n ast.Node) bool {
		if out != "" {
			return false
		}
		fs, ok := n.(*ast.ForStmt)
		if !ok || fs.Init == nil || fs.Cond == nil {
			return true
		}
		as, ok := fs.Init.(*ast.AssignStmt)
		if !ok || len(as.Lhs) != 1 {
			return true
		}
		id := identOf(as.Lhs[0])
		if id == nil || u.Info.Defs[id] != v {
			return true
		}
		be, ok := ast.Unparen(fs.Cond).(*ast.BinaryExpr)
		if !ok || be.Op != token.LSS || !isVarIdent(u.Info, be.X, v) {
			return true
		}
		y := ast.Unparen(be.Y)
		if c, ok := y.(*ast.CallExpr); ok && len(c.Args) == 1 {
			if fid, ok := ast.Unparen(c.Fun).(*ast.Ident); ok {
				if b, ok := u.Info.Uses[fid].(*types.Builtin); ok && b.Name() == "len" {
					y = c.Args[0]
				}
			}
		}
		out = "key(" + u.argShape(y, fs.Cond, 3) + ")"
		return false
	})
	return out
}

// helperResultShape: a value produced by a private (or newly introduced) helper is rendered by what the
// helper returns, so that moving a computation into a helper does not change operand shapes.
func (u *Unit) helperResultShape(e ast.Expr, idx, depth int) string {
	if u.eng == nil || u.eng.helperNest > 3 {
		return ""
	}
	c, ok := ast.Unparen(e).(*ast.CallExpr)
	if !ok {
		return ""
	}
	f := typeutil.StaticCallee(u.Info, c)
	if f == nil || !InModule(f) {
		return ""
	}
	f = f.Origin()
	hd := u.prog.Funcs[f]
	if hd == nil || hd == u.Fn {
		return ""
	}
	// exported functions the references know are API boundaries; only their getters (`return r.f`) are seen through
	gettersOnly := f.Exported() && !u.eng.isNewFunc(f)
	if gettersOnly && !isOneLiner(hd) {
		return ""
	}
	hu := u.eng.UnitOf(hd)
	var ret *ast.ReturnStmt
	n := 0
	for _, ex := range hu.Exits {
		if ex.Failure || ex.Ret == nil || hu.FR[ex.Block] {
			continue
		}
		n++
		ret = ex.Ret
	}
	if n != 1 || ret == nil || idx >= len(ret.Results) {
		return ""
	}
	if _, isLit := ast.Unparen(ret.Results[idx]).(*ast.FuncLit); isLit {
		return "" // an iterator / closure factory keeps its name
	}
	// a getter (`return r.f` / `return r.a.b`): the field of *that* receiver or argument, not just the field
	if sel, ok := ast.Unparen(ret.Results[idx]).(*ast.SelectorExpr); ok {
		path := ""
		var root ast.Expr = sel
		for {
			se, ok := ast.Unparen(root).(*ast.SelectorExpr)
			if !ok {
				break
			}
			if fv, isField := hu.Info.Uses[se.Sel].(*types.Var); !isField || !fv.IsField() {
				path = ""
				break
			}
			path = "." + se.Sel.Name + path
			root = se.X
		}
		if id, ok := ast.Unparen(root).(*ast.Ident); ok && path != "" {
			if v, ok := hu.Info.Uses[id].(*types.Var); ok {
				if ps := hu.paramShape(v); ps != "" {
					if base := newParamSubst(u, c).apply(ps); base != ps {
						return base + path
					}
				}
			}
		}
	}
	if gettersOnly {
		return "" // e.g. `Quorum()` building a set from a field: the call itself says more than its body
	}
	// the helper is transparent: its return expression is rendered with the depth budget of the call site
	u.eng.helperNest++
	defer func() { u.eng.helperNest-- }()
	return newParamSubst(u, c).apply(hu.argShape(ret.Results[idx], ret, depth))
}

// isOneLiner: the body is a single `return <expr>`: such a function is an abbreviation of that expression,
// and writing the expression out (or the reverse) changes nothing.
func isOneLiner(fd *FuncDecl) bool {
	if fd.Decl.Body == nil || len(fd.Decl.Body.List) != 1 {
		return false
	}
	ret, ok := fd.Decl.Body.List[0].(*ast.ReturnStmt)
	return ok && len(ret.Results) == 1
}

// isConjWrapper: the `if` / case clause was merged into the checks it contains (conjunct form), so it is
// not a mode condition of theirs.
func (u *Unit) isConjWrapper(n ast.Node) bool {
	if u.wrapperOfStmt == nil {
		u.buildWrappers()
	}
	for _, w := range u.wrapperList {
		if w.node == n {
			return true
		}
	}
	return false
}
