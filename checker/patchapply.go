package main

import (
	"fmt"
	"os"
	"path/filepath"
	"regexp"
	"strconv"
	"strings"
)

// applyUnifiedDiff applies a `git diff` patch to the files under root in memory and returns the new
// contents by absolute path (for packages.Config.Overlay). Only text hunks of existing files are
// supported; context lines are verified.
func applyUnifiedDiff(root string, patch string) (map[string][]byte, error) {
	out := map[string][]byte{}
	lines := strings.Split(patch, "\n")
	hunkRe := regexp.MustCompile(`^@@ -(\d+)(?:,(\d+))? \+(\d+)(?:,(\d+))? @@`)
	var file string
	var src []string
	var dst []string
	pos := 0 // index into src (0-based) of the next unconsumed line
	flush := func() {
		if file == "" {
			return
		}
		dst = append(dst, src[pos:]...)
		out[filepath.Join(root, file)] = []byte(strings.Join(dst, "\n"))
		file, src, dst, pos = "", nil, nil, 0
	}
	for i := 0; i < len(lines); i++ {
		l := lines[i]
		switch {
		case strings.HasPrefix(l, "--- "):
			flush()
		case strings.HasPrefix(l, "+++ "):
			name := strings.TrimPrefix(l, "+++ ")
			name = strings.TrimPrefix(name, "b/")
			if name == "/dev/null" {
				return nil, fmt.Errorf("file deletion not supported")
			}
			bs, err := os.ReadFile(filepath.Join(root, name))
			if err != nil {
				return nil, err
			}
			file = name
			src = strings.Split(string(bs), "\n")
			dst = nil
			pos = 0
		case hunkRe.MatchString(l) && file != "":
			m := hunkRe.FindStringSubmatch(l)
			start, _ := strconv.Atoi(m[1])
			if start > 0 {
				start--
			}
			if start < pos || start > len(src) {
				return nil, fmt.Errorf("hunk out of order in %s", file)
			}
			dst = append(dst, src[pos:start]...)
			pos = start
			for i+1 < len(lines) {
				n := lines[i+1]
				if strings.HasPrefix(n, "@@") || strings.HasPrefix(n, "diff ") || strings.HasPrefix(n, "--- ") {
					break
				}
				i++
				if n == "" && i == len(lines)-1 {
					break
				}
				if strings.HasPrefix(n, "\\") {
					continue
				}
				tag, body := byte(' '), ""
				if len(n) > 0 {
					tag, body = n[0], n[1:]
				}
				switch tag {
				case ' ':
					if pos >= len(src) || src[pos] != body {
						return nil, fmt.Errorf("context mismatch in %s at line %d", file, pos+1)
					}
					dst = append(dst, body)
					pos++
				case '-':
					if pos >= len(src) || src[pos] != body {
						return nil, fmt.Errorf("removed line mismatch in %s at line %d", file, pos+1)
					}
					pos++
				case '+':
					dst = append(dst, body)
				}
			}
		}
	}
	flush()
	if len(out) == 0 {
		return nil, fmt.Errorf("empty patch")
	}
	return out, nil
}
