package main

import (
	"fmt"
	"go/ast"
	"go/token"
	"go/types"
	"os"
	"os/exec"
	"path/filepath"
	"sort"
	"strings"

	"golang.org/x/tools/go/packages"
)

const modPath = "github.com/bronlabs/bron-crypto"

// Program is the loaded, type-checked view of /repo (purego configuration).
type Program struct {
	Root  string
	Fset  *token.FileSet
	Pkgs  []*packages.Package // non-test packages under pkg/, excluding testutils/testvectors
	All   []*packages.Package // everything loaded (incl. deps)
	ByID  map[string]*packages.Package
	Funcs map[*types.Func]*FuncDecl // in-scope function declarations by object
	fkeys map[string]*FuncDecl
}

// FuncDecl ties a declaration to its package.
type FuncDecl struct {
	Pkg  *packages.Package
	Decl *ast.FuncDecl
	Obj  *types.Func
	File *ast.File
}

func repoRoot() string {
	if r := os.Getenv("BCV_REPO"); r != "" {
		return r
	}
	return "/repo"
}

func gitStatus(root string) string {
	out, err := exec.Command("git", "-C", root, "status", "--porcelain").Output()
	if err != nil {
		return "ERR:" + err.Error()
	}
	return string(out)
}

func excludedPkg(path string) bool {
	return strings.Contains(path, "/testutils") || strings.Contains(path, "/testvectors") ||
		strings.HasSuffix(path, "_test") || strings.Contains(path, "/thirdparty/") || strings.Contains(path, "/tools/")
}

// LoadProgram loads ./pkg/... of the repository with -tags purego. overlay may be nil.
func LoadProgram(overlay map[string][]byte, needDeps bool) (*Program, error) {
	root := repoRoot()
	before := gitStatus(root)
	env := []string{}
	for _, e := range os.Environ() {
		if strings.HasPrefix(e, "GOFLAGS=") || strings.HasPrefix(e, "GOWORK=") {
			continue
		}
		if strings.HasPrefix(e, "PATH=") {
			if _, err := os.Stat("/opt/veriftools/go1.26.8/bin/go"); err == nil && !strings.Contains(e, "/opt/veriftools/go1.26.8/bin") {
				e = "PATH=/opt/veriftools/go1.26.8/bin:" + e[5:]
			}
		}
		env = append(env, e)
	}
	env = append(env, "GOFLAGS=", "GOPROXY=off", "GOSUMDB=off", "GOTOOLCHAIN=local", "CGO_ENABLED=0")
	mode := packages.NeedName | packages.NeedFiles | packages.NeedCompiledGoFiles | packages.NeedImports |
		packages.NeedTypes | packages.NeedTypesSizes | packages.NeedSyntax | packages.NeedTypesInfo | packages.NeedDeps | packages.NeedModule
	cfg := &packages.Config{
		Mode:       mode,
		Dir:        root,
		Env:        env,
		BuildFlags: []string{"-tags=purego"},
		Tests:      false,
		Overlay:    overlay,
	}
	pkgs, err := packages.Load(cfg, "./pkg/...")
	if err != nil {
		return nil, fmt.Errorf("packages.Load: %w", err)
	}
	after := gitStatus(root)
	if before != after {
		return nil, fmt.Errorf("loading changed the working tree of %s:\nbefore:\n%s\nafter:\n%s", root, before, after)
	}
	p := &Program{Root: root, ByID: map[string]*packages.Package{}, Funcs: map[*types.Func]*FuncDecl{}, fkeys: map[string]*FuncDecl{}}
	var terrs []string
	packages.Visit(pkgs, nil, func(pk *packages.Package) {
		p.All = append(p.All, pk)
		p.ByID[pk.PkgPath] = pk
		if strings.HasPrefix(pk.PkgPath, modPath) {
			for _, e := range pk.Errors {
				terrs = append(terrs, pk.PkgPath+": "+e.Error())
			}
		}
	})
	if len(terrs) > 0 {
		sort.Strings(terrs)
		if len(terrs) > 20 {
			terrs = terrs[:20]
		}
		return nil, fmt.Errorf("type/load errors in repository packages (fail-closed):\n%s", strings.Join(terrs, "\n"))
	}
	for _, pk := range pkgs {
		if excludedPkg(pk.PkgPath) {
			continue
		}
		p.Pkgs = append(p.Pkgs, pk)
		if p.Fset == nil {
			p.Fset = pk.Fset
		}
	}
	sort.Slice(p.Pkgs, func(i, j int) bool { return p.Pkgs[i].PkgPath < p.Pkgs[j].PkgPath })
	if len(p.Pkgs) < 150 {
		return nil, fmt.Errorf("only %d packages loaded from %s/pkg (expected >= 150): fail-closed", len(p.Pkgs), root)
	}
	for _, pk := range p.Pkgs {
		for _, f := range pk.Syntax {
			fname := p.Fset.Position(f.Pos()).Filename
			if strings.HasSuffix(fname, "_test.go") {
				continue
			}
			for _, d := range f.Decls {
				fd, ok := d.(*ast.FuncDecl)
				if !ok || fd.Body == nil {
					continue
				}
				obj, _ := pk.TypesInfo.Defs[fd.Name].(*types.Func)
				if obj == nil {
					continue
				}
				d := &FuncDecl{Pkg: pk, Decl: fd, Obj: obj, File: f}
				p.Funcs[obj] = d
				p.fkeys[FuncKey(obj)] = d
			}
		}
	}
	return p, nil
}

// RelPos renders a position relative to the repository root.
func (p *Program) RelPos(pos token.Pos) string {
	ps := p.Fset.Position(pos)
	rel, err := filepath.Rel(p.Root, ps.Filename)
	if err != nil {
		rel = ps.Filename
	}
	return fmt.Sprintf("%s:%d", rel, ps.Line)
}

func (p *Program) RelFile(pos token.Pos) string {
	ps := p.Fset.Position(pos)
	rel, err := filepath.Rel(p.Root, ps.Filename)
	if err != nil {
		rel = ps.Filename
	}
	return rel
}

// FuncKey is the stable textual key of a function object: pkg-relative path + receiver + name.
func FuncKey(f *types.Func) string {
	if f == nil {
		return "<nil>"
	}
	f = f.Origin()
	name := f.Name()
	sig, _ := f.Type().(*types.Signature)
	pkg := ""
	if f.Pkg() != nil {
		pkg = strings.TrimPrefix(f.Pkg().Path(), modPath+"/")
	}
	if sig != nil && sig.Recv() != nil {
		rt := sig.Recv().Type()
		ptr := ""
		if pt, ok := rt.(*types.Pointer); ok {
			rt = pt.Elem()
			ptr = "*"
		}
		switch t := rt.(type) {
		case *types.Named:
			tn := t.Origin().Obj()
			if tn.Pkg() != nil {
				pkg = strings.TrimPrefix(tn.Pkg().Path(), modPath+"/")
			}
			return fmt.Sprintf("%s.(%s%s).%s", pkg, ptr, tn.Name(), name)
		case *types.Alias:
			return fmt.Sprintf("%s.(%s%s).%s", pkg, ptr, t.Obj().Name(), name)
		case *types.TypeParam:
			return fmt.Sprintf("%s.(tparam %s).%s", pkg, t.Obj().Name(), name)
		default:
			// interface method (abstract): receiver is the interface type itself
			return fmt.Sprintf("%s.(iface).%s", pkg, name)
		}
	}
	return pkg + "." + name
}

// LookupFunc finds an in-scope function declaration by its key.
func (p *Program) LookupFunc(key string) *FuncDecl { return p.fkeys[key] }

// InModule reports whether an object belongs to the repository module.
func InModule(o types.Object) bool {
	return o != nil && o.Pkg() != nil && strings.HasPrefix(o.Pkg().Path(), modPath)
}
