package main

// Engine Q: ordered in-module call inventory per function (subsequence rule) and parameter-use
// inventory. Applied to small, specification-driven scopes where *which* primitive is called, and in
// which order, is the behaviour (cofactor clearing after the map, the group operation behind a
// homomorphic op, the exchange used for a broadcast, the rounds of a runner).

import (
	"fmt"
	"go/ast"
	"go/types"
	"sort"
	"strings"

	"golang.org/x/tools/go/types/typeutil"
)

func (r *Run) callSeqOf(fd *FuncDecl) []string {
	return r.callSeqRec(fd, map[*FuncDecl]bool{}, 0)
}

// unexportedHelper resolves a static call to an unexported function of the same module (inlined by
// the per-function inventories so that extracting a helper does not change them).
func (r *Run) unexportedHelper(info *types.Info, c *ast.CallExpr) *FuncDecl {
	f := typeutil.StaticCallee(info, c)
	if f == nil || !InModule(f) {
		return nil
	}
	if f.Exported() && !r.G.isNewFunc(f.Origin()) {
		return nil
	}
	return r.Prog.Funcs[f.Origin()]
}

func (r *Run) callSeqRec(fd *FuncDecl, onPath map[*FuncDecl]bool, depth int) []string {
	if onPath[fd] || depth > 4 {
		return nil
	}
	onPath[fd] = true
	defer delete(onPath, fd)
	var out []string
	for _, u := range r.G.unitsOf(fd) {
		type item struct {
			pos    int
			text   string
			helper *FuncDecl
			call   *ast.CallExpr
		}
		var items []item
		ast.Inspect(u.Body, func(n ast.Node) bool {
			if lit, ok := n.(*ast.FuncLit); ok && lit != u.Lit {
				return false
			}
			c, ok := n.(*ast.CallExpr)
			if !ok {
				return true
			}
			f, _ := typeutil.Callee(u.Info, c).(*types.Func)
			if f == nil || !InModule(f) {
				return true
			}
			k := FuncKey(f)
			// constant string arguments (correlation ids, labels) are part of the operation
			var consts []string
			for _, a := range c.Args {
				if tv, has := u.Info.Types[a]; has && tv.Value != nil && tv.Value.Kind().String() == "String" {
					consts = append(consts, tv.Value.ExactString())
				} else if be, isB := ast.Unparen(a).(*ast.BinaryExpr); isB {
					// prefix + "CONST"
					if tv, has := u.Info.Types[be.Y]; has && tv.Value != nil && tv.Value.Kind().String() == "String" {
						consts = append(consts, "+"+tv.Value.ExactString())
					}
				}
			}
			if len(consts) > 0 {
				k += "(" + strings.Join(consts, ",") + ")"
			}
			// how often an operation runs is part of it: hoisting a call out of (or into) a loop changes it
			if lc := u.loopContext(c); len(lc) > 0 {
				k += " @" + strings.Join(lc, " / ")
			}
			// evaluation order: arguments before the call itself → order by end position
			items = append(items, item{int(c.End()), k, r.unexportedHelper(u.Info, c), c})
			return true
		})
		sort.SliceStable(items, func(i, j int) bool { return items[i].pos < items[j].pos })
		for _, it := range items {
			out = append(out, it.text)
			if it.helper != nil {
				ps := newParamSubst(u, it.call)
				sfx := ""
				if lc := u.loopContext(it.call); len(lc) > 0 {
					sfx = strings.Join(lc, " / ")
				}
				for _, op := range r.callSeqRec(it.helper, onPath, depth+1) {
					out = append(out, mergeContexts(ps.apply(op), sfx, ""))
				}
			}
		}
	}
	return out
}

type seqRef struct {
	Comment   string              `json:"comment"`
	Functions map[string][]string `json:"functions"`
	Params    map[string][]int    `json:"params_used"`
}

func usedParams(fd *FuncDecl) []int {
	var out []int
	if fd.Decl.Type.Params == nil {
		return out
	}
	info := fd.Pkg.TypesInfo
	k := 0
	for _, fl := range fd.Decl.Type.Params.List {
		names := fl.Names
		if len(names) == 0 {
			k++
			continue
		}
		for _, nm := range names {
			v, _ := info.Defs[nm].(*types.Var)
			used := false
			if v != nil && nm.Name != "_" {
				ast.Inspect(fd.Decl.Body, func(n ast.Node) bool {
					if id, ok := n.(*ast.Ident); ok && info.Uses[id] == v {
						used = true
					}
					return !used
				})
			}
			if used {
				out = append(out, k)
			}
			k++
		}
	}
	return out
}

func (r *Run) EmitSeqRef(name string, scope Scope) {
	ref := seqRef{Comment: "frozen ordered in-module call inventory (subsequence rule) and used-parameter sets", Functions: map[string][]string{}, Params: map[string][]int{}}
	for _, fd := range r.Prog.FuncsIn(scope) {
		if s := r.callSeqOf(fd); len(s) > 0 {
			ref.Functions[FuncKey(fd.Obj)] = s
		}
		if up := usedParams(fd); len(up) > 0 {
			ref.Params[FuncKey(fd.Obj)] = up
		}
	}
	writeJSON(refPath(name), ref)
}

func (r *Run) CheckCallSeq(rule, name string, scope Scope, min int, ordered bool) {
	r.Rule(rule, "operation order: for every function of the frozen reference ("+name+") the in-module calls (with their constant string arguments) include the reference calls – as an ordered subsequence for runners / exchange layer / hash-to-curve, as a multiset elsewhere – and every parameter that was used is still used; a replaced primitive, a skipped step, a changed correlation id / label or an ignored input is named")
	var ref seqRef
	if err := readJSON(refPath(name), &ref); err != nil {
		r.FailKind("anchor-unresolved", rule, "ref:"+name, err.Error())
		return
	}
	byKey := map[string]*FuncDecl{}
	for _, fd := range r.Prog.FuncsIn(scope) {
		byKey[FuncKey(fd.Obj)] = fd
	}
	keys := []string{}
	for k := range ref.Functions {
		keys = append(keys, k)
	}
	sort.Strings(keys)
	n := 0
	for _, k := range keys {
		fd := byKey[k]
		if fd == nil {
			continue // renamed/removed functions are the guard inventory's concern
		}
		n++
		now := r.callSeqOf(fd)
		if ordered {
			if miss, ok := firstUnmatched(now, ref.Functions[k]); ok {
				r.Pass(rule, k, r.Prog.RelPos(fd.Decl.Pos()), fmt.Sprintf("%d calls in order", len(ref.Functions[k])))
			} else {
				r.Fail(rule, k+" :: "+miss, r.Prog.RelPos(fd.Decl.Pos()), "call `"+miss+"` is missing or out of order")
			}
			continue
		}
		// order-insensitive: independent computations may be reordered freely
		have := map[string]int{}
		for _, c := range now {
			have[c]++
		}
		okAll := true
		want := map[string]int{}
		for _, c := range ref.Functions[k] {
			want[c]++
		}
		ws := []string{}
		for c := range want {
			ws = append(ws, c)
		}
		sort.Strings(ws)
		for _, c := range ws {
			if have[c] < want[c] {
				okAll = false
				r.Fail(rule, k+" :: "+c, r.Prog.RelPos(fd.Decl.Pos()), fmt.Sprintf("call `%s` occurs %d time(s), reference has %d: the function no longer performs that operation", c, have[c], want[c]))
			}
		}
		if okAll {
			r.Pass(rule, k, r.Prog.RelPos(fd.Decl.Pos()), fmt.Sprintf("%d distinct calls present", len(want)))
		}
	}
	pk := []string{}
	for k := range ref.Params {
		pk = append(pk, k)
	}
	sort.Strings(pk)
	for _, k := range pk {
		fd := byKey[k]
		if fd == nil {
			continue
		}
		have := map[int]bool{}
		for _, i := range usedParams(fd) {
			have[i] = true
		}
		for _, i := range ref.Params[k] {
			if !have[i] {
				r.Fail(rule, fmt.Sprintf("%s :: param#%d", k, i), r.Prog.RelPos(fd.Decl.Pos()), fmt.Sprintf("parameter #%d is no longer used: the function ignores one of its inputs", i))
			}
		}
	}
	r.RequireCount(rule, "functions with in-module calls", n, min)
}
