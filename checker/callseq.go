package main

// Engine Q: ordered in-module call inventory per function (subsequence rule) and parameter-use
// inventory. Applied to small, specification-driven scopes where *which* primitive is called, and in
// which order, is the behaviour (cofactor clearing after the map, the group operation behind a
// homomorphic op, the exchange used for a broadcast, the rounds of a runner).

import (
	"fmt"
	"go/ast"
	"go/types"
	"sort"
	"strings"

	"golang.org/x/tools/go/types/typeutil"
)

func (r *Run) callSeqOf(fd *FuncDecl) []string {
	return r.callSeqRec(fd, map[*FuncDecl]bool{}, 0)
}

// unexportedHelper resolves a static call to an unexported function of the same module (inlined by
// the per-function inventories so that extracting a helper does not change them).
func (r *Run) unexportedHelper(info *types.Info, c *ast.CallExpr) *FuncDecl {
	f := typeutil.StaticCallee(info, c)
	if f == nil || !InModule(f) {
		return nil
	}
	if f.Exported() && !r.G.isNewFunc(f.Origin()) {
		return nil
	}
	return r.Prog.Funcs[f.Origin()]
}

// transparentCallee: like unexportedHelper, plus exported one-line functions (`return <expr>`), which the
// call inventory replaces by the calls they make.
func (r *Run) transparentCallee(info *types.Info, c *ast.CallExpr) *FuncDecl {
	if h := r.unexportedHelper(info, c); h != nil {
		return h
	}
	f := typeutil.StaticCallee(info, c)
	if f == nil || !InModule(f) {
		return nil
	}
	if hd := r.Prog.Funcs[f.Origin()]; hd != nil && isOneLiner(hd) {
		return hd
	}
	return nil
}

func (r *Run) callSeqRec(fd *FuncDecl, onPath map[*FuncDecl]bool, depth int) []string {
	if onPath[fd] || depth > 8 {
		return nil
	}
	onPath[fd] = true
	defer delete(onPath, fd)
	var out []string
	for _, u := range r.G.unitsOf(fd) {
		type item struct {
			pos    int
			text   string
			helper *FuncDecl
			call   *ast.CallExpr
		}
		var items []item
		spawned := map[*ast.CallExpr]bool{}
		calledFuns := map[ast.Expr]bool{} // expressions in call position
		ast.Inspect(u.Body, func(n ast.Node) bool {
			if c, ok := n.(*ast.CallExpr); ok {
				f := ast.Unparen(c.Fun)
				calledFuns[f] = true
				switch x := f.(type) {
				case *ast.IndexExpr:
					calledFuns[ast.Unparen(x.X)] = true
				case *ast.IndexListExpr:
					calledFuns[ast.Unparen(x.X)] = true
				}
			}
			return true
		})
		ast.Inspect(u.Body, func(n ast.Node) bool {
			if lit, ok := n.(*ast.FuncLit); ok && lit != u.Lit {
				return false
			}
			// an in-module function used as a value (`p.combine(x, y, ct.AndBytes)`) is performed by whoever
			// receives it: it counts like a call of it
			if ref := u.funcValueRef(n, calledFuns); ref != nil && InModule(ref) && !r.trivialAccessor(ref) {
				items = append(items, item{int(n.End()), FuncKey(ref), nil, nil})
			}
			if gs, ok := n.(*ast.GoStmt); ok {
				spawned[gs.Call] = true // what a spawned goroutine does is not part of this function's calls
			}
			c, ok := n.(*ast.CallExpr)
			if !ok {
				return true
			}
			f, _ := typeutil.Callee(u.Info, c).(*types.Func)
			if f == nil || !InModule(f) || r.trivialAccessor(f) || higherOrderUtility(f) || containerQuery(f) {
				return true
			}
			k := FuncKey(f)
			// constant string arguments (correlation ids, labels) are part of the operation
			var consts []string
			for _, a := range c.Args {
				if cs := u.constStringArg(a, 0); cs != "" {
					consts = append(consts, cs)
				}
			}
			if len(consts) > 0 {
				k += "(" + strings.Join(consts, ",") + ")"
			}
			// how often an operation runs is part of it: hoisting a call out of (or into) a loop changes it
			if lc := u.loopContext(c); len(lc) > 0 {
				k += " @" + strings.Join(lc, " / ")
			}
			// evaluation order: arguments before the call itself → order by end position
			var helper *FuncDecl
			if !spawned[c] {
				helper = r.transparentCallee(u.Info, c)
			}
			items = append(items, item{int(c.End()), k, helper, c})
			return true
		})
		sort.SliceStable(items, func(i, j int) bool { return items[i].pos < items[j].pos })
		for _, it := range items {
			if it.helper == nil {
				out = append(out, it.text)
				continue
			}
			// an unexported helper is represented by the calls it makes (so that extracting, renaming or
			// merging helpers changes nothing); a helper that makes none by its own name
			ps := newParamSubst(u, it.call)
			sfx := ""
			if lc := u.loopContext(it.call); len(lc) > 0 {
				sfx = strings.Join(lc, " / ")
			}
			inl := r.callSeqRec(it.helper, onPath, depth+1)
			if len(inl) == 0 || (it.helper.Obj.Exported() && !r.G.isNewFunc(it.helper.Obj)) {
				// an exported one-liner keeps its own name too: *which* accessor is called matters
				out = append(out, it.text)
			} else {
				// remembered so that a reference taken when the helper made no calls of its own is still met
				out = append(out, "≈"+it.text)
			}
			for _, op := range inl {
				out = append(out, mergeContexts(ps.apply(op), sfx, ""))
			}
		}
	}
	return out
}

// higherOrderUtility: Map / Reduce / Filter / Fold … of pkg/base/utils take the loop body as a function
// argument; they are loop syntax (replacing one by a `for` loop is not a behaviour change), and the calls
// made inside the function literal are inventoried with the enclosing function anyway.
func higherOrderUtility(f *types.Func) bool {
	if f.Pkg() == nil || !strings.Contains(f.Pkg().Path(), "/pkg/base/utils") {
		return false
	}
	sig := f.Type().(*types.Signature)
	for i := 0; i < sig.Params().Len(); i++ {
		if _, ok := sig.Params().At(i).Type().Underlying().(*types.Signature); ok {
			return true
		}
	}
	return false
}

// constStringArg: a constant string argument, or the constant suffix of `prefix + "CONST"`, also when
// the argument was first stored in a local (`id := prefix + suffix; f(id)`).
func (u *Unit) constStringArg(a ast.Expr, depth int) string {
	a = ast.Unparen(a)
	if tv, has := u.Info.Types[a]; has && tv.Value != nil {
		if tv.Value.Kind().String() == "String" {
			return tv.Value.ExactString()
		}
		return ""
	}
	switch x := a.(type) {
	case *ast.BinaryExpr:
		if tv, has := u.Info.Types[x.Y]; has && tv.Value != nil && tv.Value.Kind().String() == "String" {
			return "+" + tv.Value.ExactString()
		}
	case *ast.Ident:
		if depth < 3 {
			if rhs := u.uniqueLocalDef(x); rhs != nil {
				return u.constStringArg(rhs, depth+1)
			}
		}
	}
	return ""
}

// funcValueRef: n is an identifier / selector that denotes a function and is not in call position.
func (u *Unit) funcValueRef(n ast.Node, called map[ast.Expr]bool) *types.Func {
	switch x := n.(type) {
	case *ast.SelectorExpr:
		isCall := called[x]
		called[x.Sel] = true // the selector's identifier is visited next: already accounted for here
		if isCall {
			return nil
		}
		f, _ := u.Info.Uses[x.Sel].(*types.Func)
		return f
	case *ast.Ident:
		if called[x] {
			return nil
		}
		f, _ := u.Info.Uses[x].(*types.Func)
		if f != nil && f.Type().(*types.Signature).Recv() != nil {
			return nil // the Sel of a method selector is visited with its SelectorExpr
		}
		return f
	}
	return nil
}

// containerQuery: read-only queries of the generic containers in pkg/base/datastructures. Whether code asks
// `ContainsKey` before `Get` or uses the comma-ok result of `Get` alone is not behaviour.
func containerQuery(f *types.Func) bool {
	if f.Pkg() == nil || !strings.Contains(f.Pkg().Path(), "/pkg/base/datastructures") {
		return false
	}
	switch f.Name() {
	case "Contains", "ContainsKey", "Get", "Size", "IsEmpty", "Len":
		return true
	}
	return false
}

// trivialAccessor: a function whose body is `return <field / constant / selector chain>`. Whether and
// how often a getter is called is not behaviour (hoisting it out of a loop, caching it in a local).
func (r *Run) trivialAccessor(f *types.Func) bool {
	fd := r.Prog.Funcs[f.Origin()]
	if fd == nil || fd.Decl.Body == nil || len(fd.Decl.Body.List) != 1 {
		return false
	}
	ret, ok := fd.Decl.Body.List[0].(*ast.ReturnStmt)
	if !ok || len(ret.Results) != 1 {
		return false
	}
	pure := true
	ast.Inspect(ret.Results[0], func(n ast.Node) bool {
		switch n.(type) {
		case *ast.CallExpr, *ast.CompositeLit, *ast.FuncLit:
			pure = false
		}
		return pure
	})
	return pure
}

// callBase / callInLoop split an inventory entry `callee(consts) @loop-context`.
func callBase(s string) string {
	if i := strings.Index(s, " @"); i >= 0 {
		return s[:i]
	}
	return s
}

func callInLoop(s string) bool { return strings.Contains(s, " @") }

// callCovers: a reference entry is still performed by `now` when it is the same call and, if the
// reference ran it inside a loop (once per element), it still runs inside a loop. Which loop, and how
// the loop is written, is left to the operand shapes of the guard and transcript inventories.
func callCovers(ref, now string) bool {
	return callBase(ref) == callBase(now) && (!callInLoop(ref) || callInLoop(now))
}

// firstUnmatchedCall: ordered-subsequence rule under callCovers; a run of identical reference entries
// (an unrolled repetition) needs one occurrence.
func firstUnmatchedCall(now, ref []string) (string, bool) {
	i := 0
	prev := ""
	for _, want := range ref {
		if want == prev {
			continue
		}
		prev = want
		found := false
		for i < len(now) {
			if callCovers(want, now[i]) {
				found = true
				i++
				break
			}
			i++
		}
		if !found {
			return want, false
		}
	}
	return "", true
}

type seqRef struct {
	Comment   string              `json:"comment"`
	Functions map[string][]string `json:"functions"`
	Params    map[string][]int    `json:"params_used"`
}

func usedParams(fd *FuncDecl) []int {
	var out []int
	if fd.Decl.Type.Params == nil {
		return out
	}
	info := fd.Pkg.TypesInfo
	k := 0
	for _, fl := range fd.Decl.Type.Params.List {
		names := fl.Names
		if len(names) == 0 {
			k++
			continue
		}
		for _, nm := range names {
			v, _ := info.Defs[nm].(*types.Var)
			used := false
			if v != nil && nm.Name != "_" {
				ast.Inspect(fd.Decl.Body, func(n ast.Node) bool {
					if id, ok := n.(*ast.Ident); ok && info.Uses[id] == v {
						used = true
					}
					return !used
				})
			}
			if used {
				out = append(out, k)
			}
			k++
		}
	}
	return out
}

func (r *Run) EmitSeqRef(name string, scope Scope) {
	ref := seqRef{Comment: "frozen ordered in-module call inventory (subsequence rule) and used-parameter sets", Functions: map[string][]string{}, Params: map[string][]int{}}
	for _, fd := range r.Prog.FuncsIn(scope) {
		if s := r.callSeqOf(fd); len(s) > 0 {
			ref.Functions[FuncKey(fd.Obj)] = s
		}
		if up := usedParams(fd); len(up) > 0 {
			ref.Params[FuncKey(fd.Obj)] = up
		}
	}
	writeJSON(refPath(name), ref)
}

func (r *Run) CheckCallSeq(rule, name string, scope Scope, min int, ordered bool) {
	r.Rule(rule, "operation order: for every function of the frozen reference ("+name+") every in-module call of the reference (resolved callee plus its constant string arguments; trivial getters excluded; unexported helpers replaced by the calls they make) is still made, and one made once per loop element is still made inside a loop; every parameter that was used is still used; a replaced primitive, a skipped step, a call hoisted out of its loop, a changed correlation id / label or an ignored input is named")
	var ref seqRef
	if err := readJSON(refPath(name), &ref); err != nil {
		r.FailKind("anchor-unresolved", rule, "ref:"+name, err.Error())
		return
	}
	byKey := map[string]*FuncDecl{}
	for _, fd := range r.Prog.FuncsIn(scope) {
		byKey[FuncKey(fd.Obj)] = fd
	}
	keys := []string{}
	for k := range ref.Functions {
		keys = append(keys, k)
	}
	sort.Strings(keys)
	n := 0
	for _, k := range keys {
		fd := byKey[k]
		if fd == nil {
			continue // renamed/removed functions are the guard inventory's concern
		}
		n++
		now := r.callSeqOf(fd)
		if ordered {
			if miss, ok := firstUnmatchedCall(now, ref.Functions[k]); ok {
				r.Pass(rule, k, r.Prog.RelPos(fd.Decl.Pos()), fmt.Sprintf("%d calls in order", len(ref.Functions[k])))
			} else {
				r.Fail(rule, k+" :: "+miss, r.Prog.RelPos(fd.Decl.Pos()), "call `"+miss+"` is missing or out of order")
			}
			continue
		}
		// order-insensitive: independent computations may be reordered freely
		okAll := true
		want := map[string]int{}
		for _, c := range ref.Functions[k] {
			want[c]++
		}
		ws := []string{}
		for c := range want {
			ws = append(ws, c)
		}
		sort.Strings(ws)
		for _, c := range ws {
			if strings.HasPrefix(c, "≈") {
				continue // expansion marker, not an operation
			}
			found := false
			for _, h := range now {
				if callCovers(r.normRenamed(c), r.normRenamed(strings.TrimPrefix(h, "≈"))) {
					found = true
					break
				}
			}
			if !found {
				okAll = false
				r.Fail(rule, k+" :: "+c, r.Prog.RelPos(fd.Decl.Pos()), fmt.Sprintf("call `%s` no longer occurs (or no longer once per element): the function no longer performs that operation", c))
			}
		}
		if okAll {
			r.Pass(rule, k, r.Prog.RelPos(fd.Decl.Pos()), fmt.Sprintf("%d distinct calls present", len(want)))
		}
	}
	pk := []string{}
	for k := range ref.Params {
		pk = append(pk, k)
	}
	sort.Strings(pk)
	for _, k := range pk {
		fd := byKey[k]
		if fd == nil {
			continue
		}
		have := map[int]bool{}
		for _, i := range usedParams(fd) {
			have[i] = true
		}
		for _, i := range ref.Params[k] {
			if !have[i] {
				r.Fail(rule, fmt.Sprintf("%s :: param#%d", k, i), r.Prog.RelPos(fd.Decl.Pos()), fmt.Sprintf("parameter #%d is no longer used: the function ignores one of its inputs", i))
			}
		}
	}
	r.RequireCount(rule, "functions with in-module calls", n, min)
}
