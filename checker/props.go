package main

import (
	"encoding/json"
	"fmt"
	"os"
	"sort"
	"time"
)

// propSpec wires a property to its scopes and rule functions.
type propSpec struct {
	ID         string
	Scope      Scope // guard-inventory scope
	FrameScope Scope // transcript/sponge operation inventory scope
	MinFrame   int
	StoreScope Scope
	MinStores  int
	SeqScope   Scope
	MinSeq     int
	Extra      []extraScope // further inventories (guards, conditions, calls) over dependency code named in the property's anchors
	MinFuncs   int
	Check      func(r *Run)
	NeedSSA    bool
}

type extraScope struct {
	Name  string
	Scope Scope
	Min   int
}

var props = map[string]*propSpec{}

func register(p *propSpec) { props[p.ID] = p }

func runCheck(prop, tier string) int {
	spec := props[prop]
	if spec == nil {
		fmt.Fprintf(os.Stderr, "property %s is not claimed by this checker\n", prop)
		return 2
	}
	if tier != "quick" && tier != "thorough" {
		tier = "quick"
	}
	t0 := time.Now()
	prog, err := LoadProgram(nil, false)
	r := NewRun(prop, tier, prog)
	r.Start = t0
	if err != nil {
		r.FailKind("load-failure", prop+".LOAD", "load", err.Error())
		return r.Finish()
	}
	r.Analysed["packages"] = len(prog.Pkgs)
	r.Analysed["functions"] = len(prog.Funcs)
	func() {
		defer func() {
			if e := recover(); e != nil {
				r.FailKind("engine-panic", prop+".ENGINE", "panic", fmt.Sprint(e))
			}
		}()
		spec.Check(r)
		if tier == "thorough" {
			runSelfTest(r, spec)
		}
	}()
	return r.Finish()
}

func runEmit(prop string) int {
	spec := props[prop]
	if spec == nil {
		fmt.Fprintf(os.Stderr, "unknown property %s\n", prop)
		return 2
	}
	prog, err := LoadProgram(nil, false)
	if err != nil {
		fmt.Fprintln(os.Stderr, err)
		return 2
	}
	r := NewRun(prop, "emit", prog)
	// all declared functions of the tree the references are taken from
	{
		keys := []string{}
		for k := range prog.fkeys {
			keys = append(keys, k)
		}
		sort.Strings(keys)
		writeJSON(refPath("functions.json"), keys)
	}
	if prop == "C07" {
		checkSamplerInventory(r)
		fmt.Println("C07: wrote sampler inventory")
	}
	if prop == "C02" {
		if err := r.EmitGuardRef("C02_admission_guards.json", c02Admission); err != nil {
			fmt.Fprintln(os.Stderr, err)
		}
	}
	if len(spec.Scope.Include) > 0 && prop != "C12" {
		r.EmitCondRef(prop+"_conds.json", spec.Scope)
		fmt.Println(prop + ": wrote branch-condition reference")
	}
	for _, x := range spec.Extra {
		if err := r.EmitGuardRef(prop+"_"+x.Name+"_guards.json", x.Scope); err != nil {
			fmt.Fprintln(os.Stderr, err)
		}
		r.EmitCondRef(prop+"_"+x.Name+"_conds.json", x.Scope)
		r.EmitSeqRef(prop+"_"+x.Name+"_calls.json", x.Scope)
	}
	if len(spec.SeqScope.Include) > 0 {
		r.EmitSeqRef(prop+"_calls.json", spec.SeqScope)
		fmt.Println(prop + ": wrote call-sequence reference")
	}
	if len(spec.StoreScope.Include) > 0 {
		r.EmitStoreRef(prop+"_stores.json", spec.StoreScope)
		fmt.Println(prop + ": wrote store-guard reference")
	}
	if len(spec.FrameScope.Include) > 0 {
		r.EmitFrameRef(prop+"_frame.json", spec.FrameScope)
		fmt.Println(prop + ": wrote frame reference")
	}
	if len(spec.Scope.Include) > 0 && prop != "C11" {
		r.EmitLoopRef(prop+"_loops.json", loopScopes(spec))
		fmt.Println(prop + ": wrote loop-bound reference")
	}
	if len(spec.Scope.Include) > 0 {
		if err := r.EmitGuardRef(prop+"_guards.json", spec.Scope); err != nil {
			fmt.Fprintln(os.Stderr, err)
			return 2
		}
		ri, _ := readRef(prop + "_guards.json")
		fmt.Printf("%s: wrote %d functions\n", prop, len(ri.Functions))
	}
	return 0
}

func runReplay(path string) int {
	bs, err := os.ReadFile(path)
	if err != nil {
		fmt.Fprintln(os.Stderr, err)
		return 2
	}
	var rep struct {
		Property, Rule, Instance, Site, Detail, Tier string
	}
	if err := json.Unmarshal(bs, &rep); err != nil {
		fmt.Fprintln(os.Stderr, err)
		return 2
	}
	fmt.Printf("replaying property=%s rule=%s instance=%s (recorded at %s: %s)\n", rep.Property, rep.Rule, rep.Instance, rep.Site, rep.Detail)
	tier := rep.Tier
	if tier == "" {
		tier = "quick"
	}
	return runCheck(rep.Property, tier)
}
