package main

import (
	"fmt"
	"go/ast"
	"go/token"
	"go/types"
	"regexp"
	"strings"

	"golang.org/x/tools/go/types/typeutil"
)

// ---- C04: deviation is detected, blamed correctly, never yields a bad output ----

var protoScope = Scope{Include: []string{"pkg/mpc/", "pkg/network/", "pkg/ot/"}, Exclude: []string{"pkg/mpc/sharing/"}}

// own-identity sources must never be the blamed party
var ownIDShape = regexp.MustCompile(`HolderID\(\)|SharingID\(\)|\.id\b|\.myID\b|\.ID\(\)|\.sharingID\b|\.mySharingID\b`)

// peer-id fields of two-party protocols / explicitly configured parties (frozen, each confirmed by reading)
var peerIDFields = map[string]string{
	".secondarySharingID": "lindell17 primary cosigner: the only other party of the two-party signing session",
	".primarySharingID":   "lindell17 secondary cosigner: the only other party of the two-party signing session",
	".trustedAnchorID":    "redistribute: the explicitly configured anchor (sender of the message being checked)",
	".copartyID":          "two-party sub-protocols (RVOLE, OT): the single counterparty",
}

func checkBlame(r *Run, scope Scope, minSites int) { checkBlameP(r, "C04", scope, minSites) }

func checkBlameP(r *Run, pfx string, scope Scope, minSites int) {
	r.Rule(pfx+".B1", "blame tag type: every WithTag(IdentifiableAbortPartyIDTag, v) has v of static type sharing.ID (GetMaliciousIdentities recovers culprits by type assertion; any other type is silently lost)")
	r.Rule(pfx+".B2", "blame tag is sender-derived: v is the key of a range over a party set / message map, a sender parameter, or a frozen peer-id field; never an own-identity source")
	sites := r.TagSites(scope)
	for _, ts := range sites {
		key := FuncKey(ts.Fn.Obj) + " :: " + ts.Shape
		pos := r.Prog.RelPos(ts.Call.Pos())
		r.Check(isSharingID(ts.Type), pfx+".B1", key, pos, "tag value has type "+shortType(ts.Type))
		sh := ts.Shape
		switch {
		case ownIDShape.MatchString(sh):
			r.Fail(pfx+".B2", key, pos, "blame tag value `"+sh+"` is derived from the party's own identity")
		case strings.HasPrefix(sh, "key(") || strings.HasPrefix(sh, "val("):
			r.Pass(pfx+".B2", key, pos, "range variable over "+sh)
		case peerIDFields[sh] != "":
			r.UseExempt(pfx+".B2 "+sh, peerIDFields[sh])
			r.Pass(pfx+".B2", key, pos, "frozen peer-id field")
		case regexp.MustCompile(`^\$\d$`).MatchString(sh):
			r.Pass(pfx+".B2", key, pos, "sender parameter of the enclosing function")
		default:
			r.Fail(pfx+".B2", key, pos, "blame tag value `"+sh+"` is not recognisably derived from the sender of the message being checked")
		}
	}
	r.RequireCount(pfx+".B1", "tag sites", len(sites), minSites)
	r.Analysed[pfx+".B tag sites"] = len(sites)
	_ = fmt.Sprint
}

func checkBytesCoverage(r *Run, rule string, scope Scope, min int) {
	r.CheckFieldCoverage(rule, scope, map[string]bool{"Bytes": true}, bytesExempt, min)
}

// (type.method.field) -> reason; each confirmed by reading
var bytesExempt = map[string]string{}

// checkSentinelErrors (B5): errs-go sentinel errors (errs.New) copy on With*, every other error value
// mutates in place. A package-level error variable that is not a plain errs.New sentinel is a shared
// mutable object: tagging it with a culprit overwrites the blame of every earlier use (and races).
func checkSentinelErrors(r *Run, rule string) {
	r.Rule(rule, "blame objects are fresh: every package-level error variable is initialised directly by errs.New (a copy-on-With sentinel); a variable initialised through With*/Wrap is a shared mutable error whose blame tag would be overwritten by later failures")
	n := 0
	for _, pk := range r.Prog.Pkgs {
		info := pk.TypesInfo
		for _, f := range pk.Syntax {
			if strings.HasSuffix(r.Prog.Fset.Position(f.Pos()).Filename, "_test.go") {
				continue
			}
			for _, d := range f.Decls {
				gd, ok := d.(*ast.GenDecl)
				if !ok || gd.Tok != token.VAR {
					continue
				}
				for _, sp := range gd.Specs {
					vs := sp.(*ast.ValueSpec)
					for i, nm := range vs.Names {
						obj, _ := info.Defs[nm].(*types.Var)
						if obj == nil || i >= len(vs.Values) {
							continue
						}
						t := obj.Type()
						if !(isErrorType(t) || types.Implements(t, errorIface)) {
							continue
						}
						n++
						call, isCall := ast.Unparen(vs.Values[i]).(*ast.CallExpr)
						ok := false
						if isCall {
							if fn, _ := typeutil.Callee(info, call).(*types.Func); fn != nil && fn.Pkg() != nil {
								pp := fn.Pkg().Path()
								if (strings.HasSuffix(pp, "errs-go/errs") && fn.Name() == "New") || (pp == "errors" && fn.Name() == "New") {
									ok = true
								}
							}
						}
						if !isCall {
							// alias of another package-level error variable (itself checked where it is declared)
							var id *ast.Ident
							switch x := ast.Unparen(vs.Values[i]).(type) {
							case *ast.Ident:
								id = x
							case *ast.SelectorExpr:
								id = x.Sel
							}
							if id != nil {
								if v, isVar := info.Uses[id].(*types.Var); isVar && v.Pkg() != nil && v.Parent() == v.Pkg().Scope() {
									ok = true
								}
							}
						}
						key := strings.TrimPrefix(pk.PkgPath, modPath+"/") + "." + nm.Name
						r.Check(ok, rule, key, r.Prog.RelPos(nm.Pos()), "package-level error `"+nm.Name+"` must be a plain errs.New sentinel")
					}
				}
			}
		}
	}
	r.RequireCount(rule, "package-level error variables", n, 150)
}
