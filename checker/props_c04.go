package main

import (
	"fmt"
	"regexp"
	"strings"
)

// ---- C04: deviation is detected, blamed correctly, never yields a bad output ----

var protoScope = Scope{Include: []string{"pkg/mpc/", "pkg/network/", "pkg/ot/"}, Exclude: []string{"pkg/mpc/sharing/"}}

// own-identity sources must never be the blamed party
var ownIDShape = regexp.MustCompile(`HolderID\(\)|SharingID\(\)|\.id\b|\.myID\b|\.ID\(\)|\.sharingID\b|\.mySharingID\b`)

// peer-id fields of two-party protocols / explicitly configured parties (frozen, each confirmed by reading)
var peerIDFields = map[string]string{
	".secondarySharingID": "lindell17 primary cosigner: the only other party of the two-party signing session",
	".primarySharingID":   "lindell17 secondary cosigner: the only other party of the two-party signing session",
	".trustedAnchorID":    "redistribute: the explicitly configured anchor (sender of the message being checked)",
	".copartyID":          "two-party sub-protocols (RVOLE, OT): the single counterparty",
}

func checkBlame(r *Run, scope Scope, minSites int) {
	r.Rule("C04.B1", "blame tag type: every WithTag(IdentifiableAbortPartyIDTag, v) has v of static type sharing.ID (GetMaliciousIdentities recovers culprits by type assertion; any other type is silently lost)")
	r.Rule("C04.B2", "blame tag is sender-derived: v is the key of a range over a party set / message map, a sender parameter, or a frozen peer-id field; never an own-identity source")
	sites := r.TagSites(scope)
	for _, ts := range sites {
		key := FuncKey(ts.Fn.Obj) + " :: " + ts.Shape
		pos := r.Prog.RelPos(ts.Call.Pos())
		r.Check(isSharingID(ts.Type), "C04.B1", key, pos, "tag value has type "+shortType(ts.Type))
		sh := ts.Shape
		switch {
		case ownIDShape.MatchString(sh):
			r.Fail("C04.B2", key, pos, "blame tag value `"+sh+"` is derived from the party's own identity")
		case strings.HasPrefix(sh, "key(") || strings.HasPrefix(sh, "val("):
			r.Pass("C04.B2", key, pos, "range variable over "+sh)
		case peerIDFields[sh] != "":
			r.UseExempt("C04.B2 "+sh, peerIDFields[sh])
			r.Pass("C04.B2", key, pos, "frozen peer-id field")
		case regexp.MustCompile(`^\$\d$`).MatchString(sh):
			r.Pass("C04.B2", key, pos, "sender parameter of the enclosing function")
		default:
			r.Fail("C04.B2", key, pos, "blame tag value `"+sh+"` is not recognisably derived from the sender of the message being checked")
		}
	}
	r.RequireCount("C04.B1", "tag sites", len(sites), minSites)
	r.Analysed["C04.B tag sites"] = len(sites)
	_ = fmt.Sprint
}

func checkBytesCoverage(r *Run, rule string, scope Scope, min int) {
	r.CheckFieldCoverage(rule, scope, map[string]bool{"Bytes": true}, bytesExempt, min)
}

// (type.method.field) -> reason; each confirmed by reading
var bytesExempt = map[string]string{}
