package main

import (
	"fmt"
	"os"
	"regexp"
	"sort"
	"strings"
	"time"
)

func usage() {
	fmt.Fprintln(os.Stderr, `usage:
  bcv check <Cnn> <quick|thorough>     run the rules of one property, write evidence, exit 0/1
  bcv emit  <Cnn>                      (re)generate the frozen reference inventory of a property
  bcv dump-guards <regexp>             print guard atoms of functions whose key matches
  bcv replay <file>                    re-evaluate the obligation named in a replay file`)
	os.Exit(2)
}

func main() {
	// go/packages resolves `go` through this process's PATH; the repository needs go >= 1.26.
	if _, err := os.Stat("/opt/veriftools/go1.26.8/bin/go"); err == nil && !strings.Contains(os.Getenv("PATH"), "/opt/veriftools/go1.26.8/bin") {
		os.Setenv("PATH", "/opt/veriftools/go1.26.8/bin:"+os.Getenv("PATH"))
	}
	if len(os.Args) < 2 {
		usage()
	}
	switch os.Args[1] {
	case "dump-guards":
		if len(os.Args) < 3 {
			usage()
		}
		dumpGuards(os.Args[2])
	case "check":
		if len(os.Args) < 4 {
			usage()
		}
		os.Exit(runCheck(os.Args[2], os.Args[3]))
	case "emit":
		if len(os.Args) < 3 {
			usage()
		}
		os.Exit(runEmit(os.Args[2]))
	case "dump-tags":
		prog, err := LoadProgram(nil, false)
		if err != nil {
			fmt.Fprintln(os.Stderr, err)
			os.Exit(2)
		}
		r := NewRun("C04", "dump", prog)
		for _, ts := range r.TagSites(Scope{Include: []string{"pkg/"}}) {
			fmt.Printf("%-60s %-12s %-50s %s\n", prog.RelPos(ts.Call.Pos()), shortType(ts.Type), ts.Shape, FuncKey(ts.Fn.Obj))
		}
	case "dump-readers":
		prog, err := LoadProgram(nil, false)
		if err != nil {
			fmt.Fprintln(os.Stderr, err)
			os.Exit(2)
		}
		r := NewRun("C07", "dump", prog)
		cnt := map[string]int{}
		for _, rs := range r.ReaderSites(Scope{Include: []string{"pkg/"}}) {
			cnt[rs.Origin]++
			if len(os.Args) > 2 {
				fmt.Printf("%-55s %-28s %-40s %s\n", prog.RelPos(rs.Call.Pos()), rs.Origin, rs.Shape, rs.Callee)
			}
		}
		ks := []string{}
		for k := range cnt {
			ks = append(ks, k)
		}
		sort.Strings(ks)
		for _, k := range ks {
			fmt.Printf("%5d %s\n", cnt[k], k)
		}
	case "loops-try":
		// development aid: bcv loops-try <Cnn> <patch.diff>... – rule G6 alone on each patch applied in memory
		spec := props[os.Args[2]]
		for _, pf := range os.Args[3:] {
			bs, err := os.ReadFile(pf)
			if err != nil {
				fmt.Println(pf, "ERR", err)
				continue
			}
			ov, err := applyUnifiedDiff(repoRoot(), string(bs))
			if err != nil {
				fmt.Println(pf, "ERR", firstLine(err.Error()))
				continue
			}
			prog, err := LoadProgram(ov, false)
			if err != nil {
				fmt.Println(pf, "ERR", firstLine(err.Error()))
				continue
			}
			sub := NewRun(spec.ID, "mutant", prog)
			sub.CheckLoopBounds(spec.ID+".G6", spec.ID+"_loops.json", loopScopes(spec), 1)
			n := 0
			for _, o := range sub.Obls {
				if !o.OK {
					n++
					fmt.Printf("%s FIRES %s | %s | %s\n", pf, o.Key, o.Pos, o.Detail)
				}
			}
			if n == 0 {
				fmt.Println(pf, "silent")
			}
		}
	case "mutate":
		os.Exit(runMutateCLI(os.Args[2:]))
	case "replay":
		if len(os.Args) < 3 {
			usage()
		}
		os.Exit(runReplay(os.Args[2]))
	default:
		usage()
	}
}

func dumpGuards(pat string) {
	re := regexp.MustCompile(pat)
	t0 := time.Now()
	prog, err := LoadProgram(nil, false)
	if err != nil {
		fmt.Fprintln(os.Stderr, err)
		os.Exit(2)
	}
	fmt.Fprintf(os.Stderr, "loaded %d packages, %d funcs in %v\n", len(prog.Pkgs), len(prog.Funcs), time.Since(t0))
	g := NewGuardEngine(prog)
	keys := []string{}
	for k := range prog.fkeys {
		if re.MatchString(k) {
			keys = append(keys, k)
		}
	}
	sort.Strings(keys)
	for _, k := range keys {
		fd := prog.fkeys[k]
		fmt.Printf("== %s (%s)\n", k, prog.RelPos(fd.Decl.Pos()))
		for _, a := range g.FlatAtoms(fd) {
			st := "P"
			if a.Must {
				st = "M"
			}
			via := ""
			if a.Via != "" {
				via = " via " + a.Via
			}
			fmt.Printf("   [%s] %s%s   @%s   args: %s\n", st, a.Sig(), via, prog.RelPos(a.Pos), a.ArgSig())
		}
	}
	_ = strings.Join
}
