package main

import (
	"go/ast"
	"go/types"
	"strings"
)

// Engine B: blame tags. A tag site is a call X.WithTag(base.IdentifiableAbortPartyIDTag, v).

type TagSite struct {
	Fn    *FuncDecl
	Call  *ast.CallExpr
	Val   ast.Expr
	Type  types.Type
	Shape string // argShape of the value in its unit
	Unit  *Unit
}

func isBlameTagConst(info *types.Info, e ast.Expr) bool {
	var id *ast.Ident
	switch x := ast.Unparen(e).(type) {
	case *ast.Ident:
		id = x
	case *ast.SelectorExpr:
		id = x.Sel
	}
	if id == nil {
		return false
	}
	c, ok := info.Uses[id].(*types.Const)
	return ok && c.Name() == "IdentifiableAbortPartyIDTag" && c.Pkg() != nil && strings.HasSuffix(c.Pkg().Path(), "/pkg/base")
}

// unitFor returns the innermost analysis unit (declaration or literal) containing node n.
func (g *GuardEngine) unitFor(fd *FuncDecl, n ast.Node) *Unit {
	u := g.UnitOf(fd)
	var best *ast.FuncLit
	ast.Inspect(fd.Decl.Body, func(x ast.Node) bool {
		if lit, ok := x.(*ast.FuncLit); ok {
			if lit.Pos() <= n.Pos() && n.End() <= lit.End() {
				best = lit
			}
		}
		return true
	})
	if best != nil {
		return g.litUnit(fd, best)
	}
	return u
}

func (r *Run) TagSites(scope Scope) []*TagSite {
	var out []*TagSite
	for _, fd := range r.Prog.AllFuncsIn(scope) {
		info := fd.Pkg.TypesInfo
		ast.Inspect(fd.Decl.Body, func(n ast.Node) bool {
			call, ok := n.(*ast.CallExpr)
			if !ok || len(call.Args) < 2 {
				return true
			}
			sel, ok := ast.Unparen(call.Fun).(*ast.SelectorExpr)
			if !ok || sel.Sel.Name != "WithTag" {
				return true
			}
			if !isBlameTagConst(info, call.Args[0]) {
				return true
			}
			u := r.G.unitFor(fd, call)
			ts := &TagSite{Fn: fd, Call: call, Val: call.Args[1], Type: info.TypeOf(call.Args[1]), Unit: u}
			ts.Shape = u.argShape(call.Args[1], call, 0)
			out = append(out, ts)
			return true
		})
	}
	return out
}

func isSharingID(t types.Type) bool {
	if t == nil {
		return false
	}
	n, ok := types.Unalias(t).(*types.Named)
	if !ok {
		return false
	}
	return n.Obj().Name() == "ID" && n.Obj().Pkg() != nil && strings.Contains(n.Obj().Pkg().Path(), "/pkg/mpc/sharing")
}

// unitsOf: the declaration's unit plus the units of all its literals.
func (g *GuardEngine) unitsOf(fd *FuncDecl) []*Unit {
	us := []*Unit{g.UnitOf(fd)}
	ast.Inspect(fd.Decl.Body, func(n ast.Node) bool {
		if lit, ok := n.(*ast.FuncLit); ok {
			us = append(us, g.litUnit(fd, lit))
		}
		return true
	})
	return us
}

// tagCalls lists the WithTag(IdentifiableAbortPartyIDTag, v) calls directly in this unit (not in nested literals).
func (u *Unit) tagCalls() []*ast.CallExpr {
	var out []*ast.CallExpr
	ast.Inspect(u.Body, func(n ast.Node) bool {
		if lit, ok := n.(*ast.FuncLit); ok && lit != u.Lit {
			return false
		}
		call, ok := n.(*ast.CallExpr)
		if !ok || len(call.Args) < 2 {
			return true
		}
		sel, ok := ast.Unparen(call.Fun).(*ast.SelectorExpr)
		if !ok || sel.Sel.Name != "WithTag" || !isBlameTagConst(u.Info, call.Args[0]) {
			return true
		}
		out = append(out, call)
		return true
	})
	return out
}

func (u *Unit) tagSites() []string {
	var out []string
	for _, c := range u.tagCalls() {
		out = append(out, u.argShape(c.Args[1], c, 0))
	}
	return out
}

// BlameTags: shapes of the blame tags attached in the failure branch of this atom.
func (a *Atom) BlameTags() []string {
	if a.Tail || a.FailSucc == nil {
		return nil
	}
	u := a.Unit
	var out []string
	for _, c := range u.tagCalls() {
		b := u.BlockOf(c)
		if b == nil || !u.FR[b] || !u.Dominates(a.FailSucc, b) {
			continue
		}
		// innermost: no other atom's failure successor strictly between
		inner := true
		for _, o := range u.Atoms {
			if o == a || o.Unit != u || o.FailSucc == nil || o.FailSucc == a.FailSucc {
				continue
			}
			if u.Dominates(a.FailSucc, o.FailSucc) && u.Dominates(o.FailSucc, b) {
				inner = false
				break
			}
		}
		if inner {
			out = append(out, u.argShape(c.Args[1], c, 0))
		}
	}
	return out
}
