package main

// Engine F: ordered inventory of transcript / sponge operations per function.

import (
	"fmt"
	"go/ast"
	"go/token"
	"go/types"
	"sort"
	"strings"

	"golang.org/x/tools/go/types/typeutil"
)

type SinkOp struct {
	Pos  ast.Node
	Text string // op(label; data shapes) @loops
}

// sinkKind classifies a call as an operation on a transcript or on a sponge/hash state.
func sinkKind(info *types.Info, call *ast.CallExpr) string {
	f, _ := typeutil.Callee(info, call).(*types.Func)
	if f == nil || f.Pkg() == nil {
		return ""
	}
	pp := f.Pkg().Path()
	sig := f.Type().(*types.Signature)
	if strings.HasSuffix(pp, "/pkg/transcripts") {
		switch f.Name() {
		case "AppendDomainSeparator", "AppendBytes", "ExtractBytes", "Clone", "Append", "Extract":
			return "T." + f.Name()
		}
		return ""
	}
	if strings.HasSuffix(pp, "/pkg/transcripts/hagrid") && f.Exported() && sig.Recv() == nil {
		return "hagrid." + f.Name()
	}
	if sig.Recv() == nil {
		return ""
	}
	switch f.Name() {
	case "Write", "Read", "Reset", "Sum", "Clone":
	default:
		return ""
	}
	// receiver: sponge / hash types
	rt := sig.Recv().Type()
	if p, ok := rt.(*types.Pointer); ok {
		rt = p.Elem()
	}
	n, ok := rt.(*types.Named)
	if !ok || n.Obj().Pkg() == nil {
		return ""
	}
	rp := n.Obj().Pkg().Path()
	switch {
	case rp == "crypto/sha3", rp == "hash", strings.HasPrefix(rp, "golang.org/x/crypto/"), rp == "crypto/hmac", rp == "crypto/sha256", rp == "crypto/sha512":
		return "H." + f.Name()
	case rp == "io" && (n.Obj().Name() == "Writer" || n.Obj().Name() == "Reader"):
		// hash.Hash / sha3.ShakeHash embed io.Writer / io.Reader: decide by the static type of the receiver expression
		if sel, ok := ast.Unparen(call.Fun).(*ast.SelectorExpr); ok {
			if xt, ok := types.Unalias(info.TypeOf(sel.X)).(*types.Named); ok && xt.Obj().Pkg() != nil {
				xp := xt.Obj().Pkg().Path()
				if xp == "hash" || xp == "crypto/sha3" || strings.HasPrefix(xp, "golang.org/x/crypto/") {
					return "H." + f.Name()
				}
			}
		}
		return ""
	}
	return ""
}

// isSpongeType: a concrete sponge / hash state type (value, not pointer) of the standard or x/crypto libraries.
func isSpongeType(t types.Type) bool {
	n, ok := types.Unalias(t).(*types.Named)
	if !ok || n.Obj().Pkg() == nil {
		return false
	}
	if _, isStruct := n.Underlying().(*types.Struct); !isStruct {
		return false
	}
	p := n.Obj().Pkg().Path()
	return p == "crypto/sha3" || strings.HasPrefix(p, "golang.org/x/crypto/sha3") || strings.HasPrefix(p, "golang.org/x/crypto/blake2")
}

// isStoreTarget: the expression is the left-hand side of an assignment (`*p = v` overwrites, it does not copy).
func (u *Unit) isStoreTarget(e ast.Expr) bool {
	res := false
	ast.Inspect(u.Body, func(n ast.Node) bool {
		if as, ok := n.(*ast.AssignStmt); ok {
			for _, l := range as.Lhs {
				if ast.Unparen(l) == e {
					res = true
				}
			}
		}
		return !res
	})
	return res
}

// loopContext: shapes of the enclosing range/for expressions of n (outermost first).
func (u *Unit) loopContext(n ast.Node) []string {
	var out []string
	for _, anc := range pathTo(u.Body, n) {
		switch l := anc.(type) {
		case *ast.RangeStmt:
			if l.Body.Pos() <= n.Pos() && n.End() <= l.Body.End() {
				out = append(out, "range "+u.rangeOperandShape(l, true))
			}
		case *ast.ForStmt:
			if l.Body.Pos() <= n.Pos() && n.End() <= l.Body.End() {
				c := "for"
				if be, ok := ast.Unparen(l.Cond).(*ast.BinaryExpr); ok && be.Op == token.LSS && identOf(be.X) != nil {
					c = "range " + u.argShape(be.Y, l.Cond, 1)
				} else if l.Cond != nil {
					c += " " + u.argShape(l.Cond, l.Cond, 1)
				}
				out = append(out, c)
			}
		}
	}
	return out
}

// SinkOps lists the operations of a unit in source order.
func (u *Unit) SinkOps() []SinkOp {
	var out []SinkOp
	ast.Inspect(u.Body, func(n ast.Node) bool {
		if lit, ok := n.(*ast.FuncLit); ok && lit != u.Lit {
			return false
		}
		// a value copy of a sponge state (`c := *h`, `new(*shake)`) forks it: what was absorbed before the copy is
		// in the fork, what is absorbed afterwards is not
		if st, ok := n.(*ast.StarExpr); ok {
			if tv, has := u.Info.Types[st]; has && tv.IsValue() && isSpongeType(tv.Type) && !u.isStoreTarget(st) {
				t := "H.Fork(" + u.argShape(st.X, st, 0) + "→)"
				if lc := u.loopContext(st); len(lc) > 0 {
					t += " @" + strings.Join(lc, " / ")
				}
				if cc := u.condContext(st); cc != "" {
					t += " ?" + cc
				}
				out = append(out, SinkOp{Pos: st, Text: t})
			}
			return true
		}
		call, ok := n.(*ast.CallExpr)
		if !ok {
			return true
		}
		k := sinkKind(u.Info, call)
		if k == "" {
			// io.ReadFull(sponge, buf) squeezes the sponge
			if f := typeutil.StaticCallee(u.Info, call); f != nil && f.Pkg() != nil && f.Pkg().Path() == "io" && f.Name() == "ReadFull" && len(call.Args) == 2 {
				if t := u.Info.TypeOf(call.Args[0]); t != nil {
					if p, ok := t.(*types.Pointer); ok {
						t = p.Elem()
					}
					if isSpongeType(t) {
						txt := "H.Read(" + u.argShape(call.Args[0], call, 0) + "→" + u.argShape(call.Args[1], call, 0) + ")"
						if lc := u.loopContext(call); len(lc) > 0 {
							txt += " @" + strings.Join(lc, " / ")
						}
						if cc := u.condContext(call); cc != "" {
							txt += " ?" + cc
						}
						out = append(out, SinkOp{Pos: call, Text: txt})
					}
				}
			}
			return true
		}
		var args []string
		for _, a := range call.Args {
			args = append(args, u.argShape(a, call, 0))
		}
		recv := ""
		if sel, ok := ast.Unparen(call.Fun).(*ast.SelectorExpr); ok && strings.HasPrefix(k, "H.") {
			recv = u.argShape(sel.X, call, 0) + "→"
		}
		t := k + "(" + recv + strings.Join(args, ", ") + ")"
		if lc := u.loopContext(call); len(lc) > 0 {
			t += " @" + strings.Join(lc, " / ")
		}
		if cc := u.condContext(call); cc != "" {
			t += " ?" + cc
		}
		out = append(out, SinkOp{Pos: call, Text: t})
		return true
	})
	sort.SliceStable(out, func(i, j int) bool { return out[i].Pos.Pos() < out[j].Pos.Pos() })
	return out
}

func (r *Run) sinkOpsOf(fd *FuncDecl) []string {
	return r.sinkOpsRec(fd, map[*FuncDecl]bool{}, 0)
}

func (r *Run) sinkOpsRec(fd *FuncDecl, onPath map[*FuncDecl]bool, depth int) []string {
	if onPath[fd] || depth > 8 {
		return nil
	}
	onPath[fd] = true
	defer delete(onPath, fd)
	var out []string
	for _, u := range r.G.unitsOf(fd) {
		pfx := ""
		if u.Lit != nil {
			pfx = "lit:"
		}
		// operations and helper calls in source order
		type item struct {
			pos    int
			text   string
			helper *FuncDecl
			call   *ast.CallExpr
		}
		var items []item
		for _, op := range u.SinkOps() {
			items = append(items, item{int(op.Pos.Pos()), pfx + op.Text, nil, nil})
		}
		ast.Inspect(u.Body, func(n ast.Node) bool {
			if lit, ok := n.(*ast.FuncLit); ok && lit != u.Lit {
				return false
			}
			if c, ok := n.(*ast.CallExpr); ok {
				if h := r.unexportedHelper(u.Info, c); h != nil {
					items = append(items, item{int(c.Pos()), "", h, c})
				}
			}
			return true
		})
		sort.SliceStable(items, func(i, j int) bool { return items[i].pos < items[j].pos })
		for _, it := range items {
			if it.helper != nil {
				ps := newParamSubst(u, it.call)
				// operations of the helper run under the loops and conditions of the call site
				sfx := ""
				if lc := u.loopContext(it.call); len(lc) > 0 {
					sfx = strings.Join(lc, " / ")
				}
				cc := u.condContext(it.call)
				for _, op := range r.sinkOpsRec(it.helper, onPath, depth+1) {
					op = ps.apply(op)
					// an operation a literal performs through a helper is still performed inside the literal
					if pfx != "" && !strings.HasPrefix(op, pfx) {
						op = pfx + op
					}
					out = append(out, mergeContexts(op, sfx, cc))
				}
			} else {
				out = append(out, it.text)
			}
		}
	}
	return out
}

type frameRef struct {
	Comment   string              `json:"comment"`
	Functions map[string][]string `json:"functions"`
}

func (r *Run) EmitFrameRef(name string, scope Scope) {
	ref := frameRef{Comment: "frozen ordered transcript/sponge operations per function (subsequence rule)", Functions: map[string][]string{}}
	for _, fd := range r.Prog.FuncsIn(scope) {
		if ops := r.sinkOpsOf(fd); len(ops) > 0 {
			ref.Functions[FuncKey(fd.Obj)] = ops
		}
	}
	writeJSON(refPath(name), ref)
}

// isSubsequence reports the first reference op that cannot be matched in order.
func firstUnmatched(now, ref []string) (string, bool) {
	i := 0
	for _, want := range ref {
		found := false
		for i < len(now) {
			if now[i] == want {
				found = true
				i++
				break
			}
			i++
		}
		if !found {
			return want, false
		}
	}
	return "", true
}

// CheckFrame: the current ordered operation list of every reference function contains the reference list as a subsequence.
func (r *Run) CheckFrame(rule, name string, scope Scope, min int) {
	r.Rule(rule, "transcript/sponge operation order: for every function of the frozen reference ("+name+") the ordered list of transcript and sponge operations (operation, label, data operand shapes, enclosing loop ranges) contains the reference list as a subsequence; a dropped or reordered absorb, an extraction moved before an absorb, a changed label, operand or loop range is named")
	var ref frameRef
	if err := readJSON(refPath(name), &ref); err != nil {
		r.FailKind("anchor-unresolved", rule, "ref:"+name, err.Error())
		return
	}
	byKey := map[string]*FuncDecl{}
	for _, fd := range r.Prog.FuncsIn(scope) {
		byKey[FuncKey(fd.Obj)] = fd
	}
	keys := []string{}
	for k := range ref.Functions {
		keys = append(keys, k)
	}
	sort.Strings(keys)
	nops := 0
	for _, k := range keys {
		want := ref.Functions[k]
		nops += len(want)
		fd := byKey[k]
		if fd == nil {
			found := ""
			pfx := k
			if i := strings.LastIndex(k, ".("); i >= 0 {
				pfx = k[:i]
			} else if i := strings.LastIndex(k, "."); i >= 0 {
				pfx = k[:i]
			}
			for k2, fd2 := range byKey {
				if strings.HasPrefix(k2, pfx+".") && ref.Functions[k2] == nil {
					if _, ok := firstUnmatched(r.sinkOpsOf(fd2), want); ok {
						found = k2
					}
				}
			}
			if found != "" {
				r.Pass(rule, k, "", "function renamed/moved to "+found+"; its operations are intact")
			} else {
				r.FailKind("anchor-unresolved", rule, k, "function of the operation reference no longer exists and no function of its package performs its operations")
			}
			continue
		}
		now := r.sinkOpsOf(fd)
		if miss, ok := firstUnmatched(now, want); ok {
			r.Pass(rule, k, r.Prog.RelPos(fd.Decl.Pos()), fmt.Sprintf("%d operations in order", len(want)))
		} else {
			r.Fail(rule, k+" :: "+miss, r.Prog.RelPos(fd.Decl.Pos()), "operation `"+miss+"` is missing or out of order; now: "+strings.Join(now, " ; "))
		}
	}
	r.Analysed[rule+" operations"] = nops
	r.RequireCount(rule, "functions with transcript/sponge operations", len(keys), min)
}

// rangeOperandShape: `for i := range xs` (index only, over a slice/array) is the same loop as
// `for i := 0; i < len(xs); i++`; both are rendered as len(xs).
func (u *Unit) rangeOperandShape(l *ast.RangeStmt, deep bool) string {
	sh := ""
	if deep {
		sh = u.argShape(l.X, l.X, 1)
	} else {
		sh = u.shapeOf(l.X)
	}
	if l.Value == nil {
		if t := u.Info.TypeOf(l.X); t != nil {
			switch t.Underlying().(type) {
			case *types.Slice, *types.Array:
				return "len(" + sh + ")"
			}
		}
	}
	return sh
}

// mergeContexts prefixes the loop (" @…") and condition (" ?…") context of an inlined operation with
// the context of the call site.
func mergeContexts(op, loops, conds string) string {
	if loops == "" && conds == "" {
		return op
	}
	base, lc, cc := op, "", ""
	if i := strings.Index(base, " ?"); i >= 0 {
		cc = base[i+2:]
		base = base[:i]
	}
	if i := strings.Index(base, " @"); i >= 0 {
		lc = base[i+2:]
		base = base[:i]
	}
	if loops != "" {
		if lc != "" {
			lc = loops + " / " + lc
		} else {
			lc = loops
		}
	}
	if conds != "" {
		if cc != "" {
			cc = conds + "," + cc
		} else {
			cc = conds
		}
	}
	if lc != "" {
		base += " @" + lc
	}
	if cc != "" {
		base += " ?" + cc
	}
	return base
}
