package main

import (
	"fmt"
	"go/ast"
	"go/types"
	"sort"
	"strings"
)

// Store guards: for every store into receiver state (p.state.x = …, p.x[k] = …, p.round++), the set
// of guard atoms whose success edge dominates the store. A contribution that is absorbed before (or
// without) the check that validates it shows up as a shrunken guarded-by set.

type storeRec struct {
	Shape  string
	Guards []string
}

func (r *Run) storeGuardsOf(fd *FuncDecl) map[string][]string {
	out := map[string][]string{}
	if fd.Decl.Recv == nil || len(fd.Decl.Recv.List) == 0 || len(fd.Decl.Recv.List[0].Names) == 0 {
		return out
	}
	for _, u := range r.G.unitsOf(fd) {
		info := u.Info
		rv, _ := fd.Pkg.TypesInfo.Defs[fd.Decl.Recv.List[0].Names[0]].(*types.Var)
		if rv == nil {
			continue
		}
		rootedRecv := func(e ast.Expr) bool {
			for {
				switch x := ast.Unparen(e).(type) {
				case *ast.SelectorExpr:
					e = x.X
				case *ast.IndexExpr:
					e = x.X
				case *ast.StarExpr:
					e = x.X
				case *ast.Ident:
					return info.Uses[x] == rv
				default:
					return false
				}
			}
		}
		record := func(lhs ast.Expr, at ast.Node) {
			shape := ""
			if id, bare := ast.Unparen(lhs).(*ast.Ident); bare {
				// local accumulators: `acc = acc.Op(x)`, `acc = append(acc, x)`, `acc += x` – the value folded in
				// must have passed the same checks as on the reference tree
				as, isAssign := at.(*ast.AssignStmt)
				v, _ := info.Uses[id].(*types.Var)
				if !isAssign || v == nil || v.IsField() || len(as.Lhs) != len(as.Rhs) {
					return
				}
				var rhs ast.Expr
				for i, l := range as.Lhs {
					if l == lhs {
						rhs = as.Rhs[i]
					}
				}
				if rhs == nil || (as.Tok.String() == "=" && !mentionsVar(info, rhs, v)) {
					return
				}
				if enclosingLoop(u.Body, at) == nil {
					return
				}
				shape = "acc<" + shortType(v.Type()) + "> <- " + u.argShape(rhs, at, 3)
			} else if !rootedRecv(lhs) {
				return
			} else {
				shape = fieldPath(info, lhs)
			}
			set := map[string]bool{}
			for _, a := range u.Atoms {
				if a.Unit != u || a.Skip {
					continue
				}
				if u.Guards(a, at) {
					set[a.Sig()] = true
				}
			}
			// checks performed inside unexported helpers count for the stores they guard at the call site
			for _, fa := range r.G.FlatAtoms(fd) {
				if fa.Via == "" {
					continue
				}
				top := fa.Outer
				for top != nil && top.Outer != nil {
					top = top.Outer
				}
				if top != nil && top.Unit == u && !top.Skip && u.Guards(top, at) {
					set[fa.Sig()] = true
				}
			}
			gs := []string{}
			for g := range set {
				gs = append(gs, g)
			}
			sort.Strings(gs)
			// several stores to the same field: keep the intersection (weakest) so that the reference is what every store enjoys
			if prev, ok := out[shape]; ok {
				keep := []string{}
				ps := map[string]bool{}
				for _, p := range prev {
					ps[p] = true
				}
				for _, g := range gs {
					if ps[g] {
						keep = append(keep, g)
					}
				}
				gs = keep
			}
			out[shape] = gs
		}
		ast.Inspect(u.Body, func(n ast.Node) bool {
			if lit, ok := n.(*ast.FuncLit); ok && lit != u.Lit {
				return false
			}
			switch x := n.(type) {
			case *ast.AssignStmt:
				for _, l := range x.Lhs {
					record(l, x)
				}
			case *ast.IncDecStmt:
				record(x.X, x)
			}
			return true
		})
	}
	return out
}

// fieldPath renders recv.state.receivedShares[k] as ".state.receivedShares[]".
func fieldPath(info *types.Info, e ast.Expr) string {
	switch x := ast.Unparen(e).(type) {
	case *ast.SelectorExpr:
		return fieldPath(info, x.X) + "." + x.Sel.Name
	case *ast.IndexExpr:
		return fieldPath(info, x.X) + "[]"
	case *ast.StarExpr:
		return fieldPath(info, x.X)
	case *ast.Ident:
		return ""
	}
	return "?"
}

type storeRef struct {
	Comment   string                         `json:"comment"`
	Functions map[string]map[string][]string `json:"functions"`
}

func (r *Run) EmitStoreRef(name string, scope Scope) {
	ref := storeRef{Comment: "frozen store guards: function -> stored receiver field -> guard atoms dominating every store to it", Functions: map[string]map[string][]string{}}
	for _, fd := range r.Prog.FuncsIn(scope) {
		if m := r.storeGuardsOf(fd); len(m) > 0 {
			// keep only stores with at least one guard: unguarded stores carry no obligation
			mm := map[string][]string{}
			for k, v := range m {
				if len(v) > 0 {
					mm[k] = v
				}
			}
			if len(mm) > 0 {
				ref.Functions[FuncKey(fd.Obj)] = mm
			}
		}
	}
	writeJSON(refPath(name), ref)
}

func (r *Run) CheckStoreGuards(rule, name string, scope Scope, min int) {
	r.Rule(rule, "validate before absorb: every store into participant/receiver state is dominated by at least the guard atoms that dominated it on the reference tree ("+name+"); a value stored before, or without, the check that validates it is named")
	var ref storeRef
	if err := readJSON(refPath(name), &ref); err != nil {
		r.FailKind("anchor-unresolved", rule, "ref:"+name, err.Error())
		return
	}
	byKey := map[string]*FuncDecl{}
	for _, fd := range r.Prog.FuncsIn(scope) {
		byKey[FuncKey(fd.Obj)] = fd
	}
	keys := []string{}
	for k := range ref.Functions {
		keys = append(keys, k)
	}
	sort.Strings(keys)
	n := 0
	for _, k := range keys {
		fd := byKey[k]
		if fd == nil {
			// a renamed function is reported by the guard inventory; nothing to compare here
			continue
		}
		now := r.storeGuardsOf(fd)
		fields := []string{}
		for f := range ref.Functions[k] {
			fields = append(fields, f)
		}
		sort.Strings(fields)
		for _, f := range fields {
			n++
			want := ref.Functions[k][f]
			have, exists := now[f]
			if !exists {
				// the store disappeared: not this rule's concern
				r.Pass(rule, k+" :: "+f, r.Prog.RelPos(fd.Decl.Pos()), "store no longer present")
				continue
			}
			hs := map[string]bool{}
			for _, h := range have {
				hs[h] = true
			}
			// compare on the callee part of the signature (operands are the inventory's business)
			strip := func(s string) string {
				if i := strings.Index(s, " {"); i > 0 {
					return s[:i]
				}
				return s
			}
			hs2 := map[string]bool{}
			for h := range hs {
				hs2[strip(h)] = true
			}
			var missing []string
			for _, w := range want {
				if !hs[w] && !hs2[strip(w)] {
					missing = append(missing, w)
				}
			}
			if len(missing) == 0 {
				r.Pass(rule, k+" :: "+f, r.Prog.RelPos(fd.Decl.Pos()), fmt.Sprintf("store guarded by %d checks", len(want)))
			} else {
				r.Fail(rule, k+" :: "+f, r.Prog.RelPos(fd.Decl.Pos()), "store to `"+f+"` is no longer dominated by "+strings.Join(missing, ", ")+": the value is absorbed before/without that check")
			}
		}
	}
	r.RequireCount(rule, "guarded stores", n, min)
}
