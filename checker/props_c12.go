package main

import (
	"fmt"
	"go/ast"
	"go/constant"
	"go/token"
	"go/types"
	"sort"
	"strings"

	"golang.org/x/tools/go/cfg"
	"golang.org/x/tools/go/types/typeutil"
)

type cfgBlock = cfg.Block

// ---- C12: wire formats; decoding validates like construction ----

const cborPkg = "github.com/fxamacker/cbor/v2"

func checkC12(r *Run) {
	genericGuards(r)
	checkStrictMode(r)
	checkNoOtherDecoder(r)
	checkDecoderNilFlow(r)
	checkWriterReader(r)
	checkEncodingDeterminism(r)
}

func serdePkg(r *Run) *FuncDecl { return r.Prog.LookupFunc("pkg/base/serde.UnmarshalCBOR") }

// constOf returns the constant value and the name of the constant identifier of an expression.
func constOf(info *types.Info, e ast.Expr) (constant.Value, string) {
	tv, ok := info.Types[e]
	if !ok || tv.Value == nil {
		return nil, ""
	}
	name := ""
	switch x := ast.Unparen(e).(type) {
	case *ast.Ident:
		name = x.Name
	case *ast.SelectorExpr:
		name = x.Sel.Name
	}
	return tv.Value, name
}

// lookupConst finds a package-level constant of a dependency by name.
func lookupConst(r *Run, pkgPath, name string) constant.Value {
	pk := r.Prog.ByID[pkgPath]
	if pk == nil || pk.Types == nil {
		return nil
	}
	c, ok := pk.Types.Scope().Lookup(name).(*types.Const)
	if !ok {
		return nil
	}
	return c.Val()
}

// C12.S1: the strict decoding mode is what it says.
func checkStrictMode(r *Run) {
	r.Rule("C12.S1", "strict mode by constant evaluation: the cbor.DecOptions literal from which the decoding mode is built forbids duplicate keys, indefinite lengths, unknown fields, bignum tags, byte-string keys/field names, NaN/Inf, keeps finite nesting/array/map limits; tags are registered DecTagRequired/EncTagRequired; the encoder is CoreDetEncOptions; UnmarshalCBOR decodes with DecMode.Unmarshal (rejects trailing bytes)")
	p := r.Prog
	pk := p.ByID[modPath+"/pkg/base/serde"]
	if pk == nil {
		r.FailKind("anchor-unresolved", "C12.S1", "serde", "package pkg/base/serde not found")
		return
	}
	info := pk.TypesInfo
	type req struct {
		field string
		want  string // constant name in cbor package
		max   int64  // for numeric limits
	}
	reqs := []req{
		{"DupMapKey", "DupMapKeyEnforcedAPF", 0},
		{"IndefLength", "IndefLengthForbidden", 0},
		{"ExtraReturnErrors", "ExtraDecErrorUnknownField", 0},
		{"BignumTag", "BignumTagForbidden", 0},
		{"MapKeyByteString", "MapKeyByteStringForbidden", 0},
		{"NaN", "NaNDecodeForbidden", 0},
		{"Inf", "InfDecodeForbidden", 0},
		{"MaxNestedLevels", "", 32},
		{"MaxArrayElements", "", 131072},
		{"MaxMapPairs", "", 131072},
	}
	// options whose zero value is already the strict one: if present they must equal it
	zeroStrict := map[string]string{
		"ByteStringToString":  "ByteStringToStringForbidden",
		"FieldNameByteString": "FieldNameByteStringForbidden",
		"UTF8":                "UTF8RejectInvalid",
		"FieldNameMatching":   "FieldNameMatchingCaseSensitive",
		"IntDec":              "IntDecConvertNone",
		"ByteStringToTime":    "ByteStringToTimeForbidden",
		"DefaultMapType":      "",
	}
	var lit *ast.CompositeLit
	var litFn *FuncDecl
	for _, fd := range p.FuncsIn(Scope{Include: []string{"pkg/base/serde/"}}) {
		ast.Inspect(fd.Decl.Body, func(n ast.Node) bool {
			cl, ok := n.(*ast.CompositeLit)
			if !ok {
				return true
			}
			if nt, ok := info.TypeOf(cl).(*types.Named); ok && nt.Obj().Name() == "DecOptions" && nt.Obj().Pkg().Path() == cborPkg {
				lit, litFn = cl, fd
			}
			return true
		})
	}
	if lit == nil {
		r.FailKind("anchor-unresolved", "C12.S1", "DecOptions", "no cbor.DecOptions composite literal in pkg/base/serde")
		return
	}
	fields := map[string]ast.Expr{}
	for _, el := range lit.Elts {
		if kv, ok := el.(*ast.KeyValueExpr); ok {
			if id, ok := kv.Key.(*ast.Ident); ok {
				fields[id.Name] = kv.Value
			}
		}
	}
	pos := p.RelPos(lit.Pos())
	for _, q := range reqs {
		e := fields[q.field]
		key := "DecOptions." + q.field
		if q.want != "" {
			want := lookupConst(r, cborPkg, q.want)
			if want == nil {
				r.FailKind("anchor-unresolved", "C12.S1", key, "constant cbor."+q.want+" not found")
				continue
			}
			if e == nil {
				r.Fail("C12.S1", key, pos, "option "+q.field+" is not set (its default is not the strict value cbor."+q.want+")")
				continue
			}
			got, name := constOf(info, e)
			ok := got != nil && constant.Compare(got, token.EQL, want)
			if q.field == "ExtraReturnErrors" && got != nil {
				g, _ := constant.Int64Val(constant.ToInt(got))
				w, _ := constant.Int64Val(constant.ToInt(want))
				ok = g&w == w
			}
			r.Check(ok, "C12.S1", key, p.RelPos(e.Pos()), fmt.Sprintf("%s = %s (required: cbor.%s)", q.field, name, q.want))
		} else {
			if e == nil {
				r.Pass("C12.S1", key, pos, q.field+" not set: library default applies (finite)")
				continue
			}
			got, _ := constOf(info, e)
			v, exact := int64(0), false
			if got != nil {
				v, exact = constant.Int64Val(constant.ToInt(got))
			}
			r.Check(exact && v > 0 && v <= q.max, "C12.S1", key, p.RelPos(e.Pos()), fmt.Sprintf("%s = %d (must be a constant in 1..%d)", q.field, v, q.max))
		}
	}
	for f, want := range zeroStrict {
		e := fields[f]
		if e == nil || want == "" {
			continue
		}
		w := lookupConst(r, cborPkg, want)
		got, name := constOf(info, e)
		r.Check(w != nil && got != nil && constant.Compare(got, token.EQL, w), "C12.S1", "DecOptions."+f, p.RelPos(e.Pos()), fmt.Sprintf("%s = %s (required: cbor.%s)", f, name, want))
	}
	// the literal is what the mode is built from: X.DecModeWithTags(tags) with X the literal's variable, assigned to the package-level `dec`
	built := false
	encDet := false
	ast.Inspect(litFn.Decl.Body, func(n ast.Node) bool {
		c, ok := n.(*ast.CallExpr)
		if !ok {
			return true
		}
		if f, _ := typeutil.Callee(info, c).(*types.Func); f != nil && f.Pkg() != nil && f.Pkg().Path() == cborPkg {
			switch f.Name() {
			case "DecModeWithTags":
				sel := ast.Unparen(c.Fun).(*ast.SelectorExpr)
				if id := identOf(sel.X); id != nil {
					if v, ok := info.Uses[id].(*types.Var); ok {
						// v defined by the literal
						ast.Inspect(litFn.Decl.Body, func(m ast.Node) bool {
							if as, ok := m.(*ast.AssignStmt); ok && len(as.Rhs) == 1 && ast.Unparen(as.Rhs[0]) == ast.Expr(lit) {
								if lid := identOf(as.Lhs[0]); lid != nil && info.Defs[lid] == v {
									built = true
								}
							}
							return true
						})
					}
				}
			case "EncModeWithTags", "EncMode":
				sel := ast.Unparen(c.Fun).(*ast.SelectorExpr)
				if ic, ok := ast.Unparen(sel.X).(*ast.CallExpr); ok {
					if g, _ := typeutil.Callee(info, ic).(*types.Func); g != nil && g.Name() == "CoreDetEncOptions" {
						encDet = f.Name() == "EncModeWithTags"
					}
				}
			}
		}
		return true
	})
	r.Check(built, "C12.S1", "DecMode source", pos, "the decoding mode is built from the checked DecOptions literal with the registered tag set")
	r.Check(encDet, "C12.S1", "EncMode source", p.RelPos(litFn.Decl.Pos()), "the encoding mode is cbor.CoreDetEncOptions() with the registered tag set")
	// tag registration options
	if reg := p.LookupFunc("pkg/base/serde.Register"); reg != nil {
		ok := false
		ast.Inspect(reg.Decl.Body, func(n ast.Node) bool {
			cl, isLit := n.(*ast.CompositeLit)
			if !isLit {
				return true
			}
			if nt, isN := info.TypeOf(cl).(*types.Named); isN && nt.Obj().Name() == "TagOptions" {
				dOK, eOK := false, false
				for _, el := range cl.Elts {
					if kv, isKV := el.(*ast.KeyValueExpr); isKV {
						got, _ := constOf(info, kv.Value)
						switch kv.Key.(*ast.Ident).Name {
						case "DecTag":
							w := lookupConst(r, cborPkg, "DecTagRequired")
							dOK = got != nil && w != nil && constant.Compare(got, token.EQL, w)
						case "EncTag":
							w := lookupConst(r, cborPkg, "EncTagRequired")
							eOK = got != nil && w != nil && constant.Compare(got, token.EQL, w)
						}
					}
				}
				ok = dOK && eOK
			}
			return true
		})
		r.Check(ok, "C12.S1", "TagOptions", p.RelPos(reg.Decl.Pos()), "registered type tags are DecTagRequired and EncTagRequired")
	} else {
		r.FailKind("anchor-unresolved", "C12.S1", "Register", "serde.Register not found")
	}
	// UnmarshalCBOR uses DecMode.Unmarshal
	if um := serdePkg(r); um != nil {
		uses := ""
		ast.Inspect(um.Decl.Body, func(n ast.Node) bool {
			if c, ok := n.(*ast.CallExpr); ok {
				if f, _ := typeutil.Callee(info, c).(*types.Func); f != nil && f.Pkg() != nil && f.Pkg().Path() == cborPkg {
					uses += f.Name() + " "
				}
			}
			return true
		})
		r.Check(strings.TrimSpace(uses) == "Unmarshal", "C12.S1", "UnmarshalCBOR entry", p.RelPos(um.Decl.Pos()), "serde.UnmarshalCBOR decodes with DecMode."+strings.TrimSpace(uses)+" (Unmarshal rejects trailing bytes; UnmarshalFirst / Decoder streams do not)")
		// the mode used is the package-level strict mode
		modeOK := false
		ast.Inspect(um.Decl.Body, func(n ast.Node) bool {
			if as, ok := n.(*ast.AssignStmt); ok && len(as.Rhs) == 1 {
				if id := identOf(as.Rhs[0]); id != nil {
					if v, ok := info.Uses[id].(*types.Var); ok && v.Parent() == pk.Types.Scope() && v.Name() == "dec" {
						modeOK = true
					}
				}
			}
			return true
		})
		r.Check(modeOK, "C12.S1", "UnmarshalCBOR mode", p.RelPos(um.Decl.Pos()), "serde.UnmarshalCBOR reads the package-level strict DecMode")
	} else {
		r.FailKind("anchor-unresolved", "C12.S1", "UnmarshalCBOR", "serde.UnmarshalCBOR not found")
	}
}

var foreignDecoders = map[string][]string{
	cborPkg:           {"Unmarshal", "UnmarshalFirst", "NewDecoder", "Valid", "Wellformed"},
	"encoding/json":   {"Unmarshal", "NewDecoder"},
	"encoding/gob":    {"NewDecoder"},
	"encoding/xml":    {"Unmarshal", "NewDecoder"},
	"encoding/binary": {},
}

// C12.S2: no decoder bypasses serde; every UnmarshalCBOR goes through serde.UnmarshalCBOR.
func checkNoOtherDecoder(r *Run) {
	r.Rule("C12.S2", "no other decoder: outside pkg/base/serde no non-test code calls a decoding entry point of fxamacker/cbor, encoding/json, encoding/gob or encoding/xml (or a cbor.DecMode/Decoder method); every UnmarshalCBOR method obtains its data from a checked serde.UnmarshalCBOR call")
	p := r.Prog
	nCalls := 0
	for _, fd := range p.AllFuncsIn(Scope{Include: []string{"pkg/"}, Exclude: []string{"pkg/base/serde/"}}) {
		info := fd.Pkg.TypesInfo
		ast.Inspect(fd.Decl.Body, func(n ast.Node) bool {
			c, ok := n.(*ast.CallExpr)
			if !ok {
				return true
			}
			nCalls++
			f, _ := typeutil.Callee(info, c).(*types.Func)
			if f == nil || f.Pkg() == nil {
				return true
			}
			names, watched := foreignDecoders[f.Pkg().Path()]
			if !watched {
				return true
			}
			bad := false
			for _, nm := range names {
				if f.Name() == nm {
					bad = true
				}
			}
			if sig := f.Type().(*types.Signature); sig.Recv() != nil && f.Pkg().Path() == cborPkg {
				rn := shortType(sig.Recv().Type())
				if strings.Contains(rn, "DecMode") || strings.Contains(rn, "Decoder") {
					bad = true
				}
			}
			if bad {
				r.Fail("C12.S2", FuncKey(fd.Obj)+" :: "+f.Pkg().Name()+"."+f.Name(), p.RelPos(c.Pos()), "decoding entry point "+f.FullName()+" called outside pkg/base/serde (bypasses the strict mode)")
			}
			return true
		})
	}
	r.Analysed["C12.S2 call sites scanned"] = nCalls
	// every UnmarshalCBOR method goes through serde
	n := 0
	for _, fd := range decoders(r) {
		n++
		has := false
		for _, a := range r.G.FlatAtoms(fd) {
			for _, k := range a.Callees {
				if k == "pkg/base/serde.UnmarshalCBOR" {
					has = true
				}
			}
		}
		r.Check(has, "C12.S2", FuncKey(fd.Obj)+" :: via serde", p.RelPos(fd.Decl.Pos()), "the decoder's input passes through a checked serde.UnmarshalCBOR call")
	}
	r.RequireCount("C12.S2", "UnmarshalCBOR methods", n, 135)
}

func decoders(r *Run) []*FuncDecl {
	var out []*FuncDecl
	for _, fd := range r.Prog.FuncsIn(Scope{Include: []string{"pkg/"}}) {
		if fd.Obj.Name() == "UnmarshalCBOR" && fd.Decl.Recv != nil {
			out = append(out, fd)
		}
	}
	return out
}

// serdeRejectsNil: serde.UnmarshalCBOR has an effective guard fed by reflect.Value.IsNil (or an
// equivalent nil test of the decoded value) – then no caller can receive a nil pointer without error.
func serdeRejectsNil(r *Run) bool {
	um := serdePkg(r)
	if um == nil {
		return false
	}
	for _, a := range r.G.FlatAtoms(um) {
		for _, k := range a.Callees {
			if strings.HasSuffix(k, ".IsNil") {
				return true
			}
		}
	}
	return false
}

// C12.N1: no nil dereference of what was just decoded.
func checkDecoderNilFlow(r *Run) {
	r.Rule("C12.N1a", "decoded DTO pointer: every value obtained from serde.UnmarshalCBOR[*D] is nil-tested before its first field access, or serde.UnmarshalCBOR itself rejects a nil result (CBOR null decodes a pointer to nil without error)")
	r.Rule("C12.N1b", "decoded DTO fields: every pointer- or interface-typed field of a decoded DTO is nil-tested (directly, via utils.IsNil, or by the constructor/validator it is passed to) before a method is called on it or it is dereferenced")
	p := r.Prog
	central := serdeRejectsNil(r)
	if central {
		r.Notes = append(r.Notes, "serde.UnmarshalCBOR rejects nil pointer results centrally (guard fed by reflect IsNil)")
	}
	nSites, nFields := 0, 0
	for _, fd := range p.FuncsIn(Scope{Include: []string{"pkg/"}}) {
		info := fd.Pkg.TypesInfo
		for _, u := range r.G.unitsOf(fd) {
			ast.Inspect(u.Body, func(n ast.Node) bool {
				if lit, ok := n.(*ast.FuncLit); ok && lit != u.Lit {
					return false
				}
				as, ok := n.(*ast.AssignStmt)
				if !ok || len(as.Rhs) != 1 || len(as.Lhs) < 1 {
					return true
				}
				call, ok := ast.Unparen(as.Rhs[0]).(*ast.CallExpr)
				if !ok {
					return true
				}
				f := typeutil.StaticCallee(info, call)
				if f == nil || FuncKey(f) != "pkg/base/serde.UnmarshalCBOR" {
					return true
				}
				id := identOf(as.Lhs[0])
				if id == nil || id.Name == "_" {
					return true
				}
				v, _ := info.Defs[id].(*types.Var)
				if v == nil {
					v, _ = info.Uses[id].(*types.Var)
				}
				if v == nil {
					return true
				}
				pt, isPtr := v.Type().Underlying().(*types.Pointer)
				var st *types.Struct
				if isPtr {
					st, _ = pt.Elem().Underlying().(*types.Struct)
				} else {
					st, _ = v.Type().Underlying().(*types.Struct)
				}
				key := FuncKey(fd.Obj) + " :: " + shortType(v.Type())
				if isPtr {
					nSites++
					if central {
						r.Pass("C12.N1a", key, p.RelPos(as.Pos()), "nil result rejected by serde.UnmarshalCBOR")
					} else {
						// first dereference of v must be guarded by a nil test of v
						if use := firstUnguardedDeref(u, v, as); use != nil {
							r.Fail("C12.N1a", key, p.RelPos(use.Pos()), "decoded pointer `"+v.Name()+"` is dereferenced without a nil test: CBOR null (0xf6) makes serde.UnmarshalCBOR return (nil, nil) and this decoder panics")
						} else {
							r.Pass("C12.N1a", key, p.RelPos(as.Pos()), "nil-tested before first use")
						}
					}
				}
				if st != nil {
					for i := 0; i < st.NumFields(); i++ {
						fld := st.Field(i)
						if !nilable(fld.Type()) {
							continue
						}
						nFields++
						fkey := key + "." + fld.Name()
						if use, what := unguardedFieldDeref(r, u, v, fld, as); use != nil {
							r.Fail("C12.N1b", fkey, p.RelPos(use.Pos()), "DTO field `"+fld.Name()+"` ("+shortType(fld.Type())+") "+what+" without a nil test: an absent or null field makes this decoder panic")
						} else {
							r.Pass("C12.N1b", fkey, p.RelPos(as.Pos()), "nil-tested or only passed on")
						}
					}
				}
				return true
			})
		}
	}
	r.RequireCount("C12.N1a", "pointer decode sites", nSites, 100)
	r.RequireCount("C12.N1b", "nilable DTO fields", nFields, 80)
}

func nilable(t types.Type) bool {
	switch t.Underlying().(type) {
	case *types.Pointer, *types.Interface:
		return true
	}
	return false
}

// isNilTestOf: atom tests `expr == nil` / `expr != nil` / IsNil(expr) for an expression selecting target.
func atomNilTests(u *Unit, a *Atom, match func(ast.Expr) bool) bool {
	if a.Leaf == nil {
		return false
	}
	found := false
	ast.Inspect(a.Leaf, func(n ast.Node) bool {
		switch x := n.(type) {
		case *ast.BinaryExpr:
			if x.Op == token.EQL || x.Op == token.NEQ {
				if isNilIdent(u.Info, x.Y) && match(x.X) || isNilIdent(u.Info, x.X) && match(x.Y) {
					found = true
				}
			}
		case *ast.CallExpr:
			if f, _ := typeutil.Callee(u.Info, x).(*types.Func); f != nil && (f.Name() == "IsNil" || f.Name() == "IsNilAny") {
				for _, arg := range x.Args {
					if match(arg) {
						found = true
					}
				}
			}
		}
		return true
	})
	return found
}

func isVarIdent(info *types.Info, e ast.Expr, v *types.Var) bool {
	id := identOf(e)
	return id != nil && info.Uses[id] == v
}

// firstUnguardedDeref: a selector v.F / *v after `after` not guarded by a nil test of v.
func firstUnguardedDeref(u *Unit, v *types.Var, after ast.Node) ast.Node {
	var bad ast.Node
	ast.Inspect(u.Body, func(n ast.Node) bool {
		if bad != nil {
			return false
		}
		if lit, ok := n.(*ast.FuncLit); ok && lit != u.Lit {
			return false
		}
		var base ast.Expr
		switch x := n.(type) {
		case *ast.SelectorExpr:
			base = x.X
		case *ast.StarExpr:
			base = x.X
		default:
			return true
		}
		if n.Pos() < after.End() || !isVarIdent(u.Info, base, v) {
			return true
		}
		guarded := false
		for _, a := range u.Atoms {
			if a.Unit == u && atomNilTests(u, a, func(e ast.Expr) bool { return isVarIdent(u.Info, e, v) }) && u.Guards(a, n) {
				guarded = true
			}
		}
		isV := func(e ast.Expr) bool { return isVarIdent(u.Info, e, v) }
		if !guarded && (shortCircuitGuarded(u, n, isV) || nilGuardedCFG(u, n, isV)) {
			guarded = true
		}
		if !guarded {
			bad = n
		}
		return true
	})
	return bad
}

// unguardedFieldDeref: v.F.M(...) / v.F.G / *v.F not guarded by a nil test of v.F.
func unguardedFieldDeref(r *Run, u *Unit, v *types.Var, fld *types.Var, after ast.Node) (ast.Node, string) {
	isFieldSel := func(e ast.Expr) bool {
		sel, ok := ast.Unparen(e).(*ast.SelectorExpr)
		return ok && u.Info.Uses[sel.Sel] == fld && isVarIdent(u.Info, sel.X, v)
	}
	var bad ast.Node
	what := ""
	ast.Inspect(u.Body, func(n ast.Node) bool {
		if bad != nil {
			return false
		}
		if lit, ok := n.(*ast.FuncLit); ok && lit != u.Lit {
			return false
		}
		kind := ""
		switch x := n.(type) {
		case *ast.SelectorExpr:
			if isFieldSel(x.X) {
				kind = "is dereferenced (." + x.Sel.Name + ")"
				// method call on a pointer receiver that tolerates nil is fine
				if f, ok := u.Info.Uses[x.Sel].(*types.Func); ok {
					if methodToleratesNilRecv(r, f) {
						kind = ""
					}
				}
			}
		case *ast.StarExpr:
			if isFieldSel(x.X) {
				kind = "is dereferenced (*)"
			}
		}
		// the field handed to an in-module function that dereferences the parameter without a nil test
		if c, ok := n.(*ast.CallExpr); ok && kind == "" {
			for i, arg := range c.Args {
				if !isFieldSel(arg) {
					continue
				}
				if f := typeutil.StaticCallee(u.Info, c); f != nil && InModule(f) {
					if why := paramDerefUnchecked(r, f.Origin(), i, 0, map[*types.Func]bool{}); why != "" {
						kind = "is passed to " + f.Name() + " which " + why
					}
				}
			}
		}
		if kind == "" || n.Pos() < after.End() {
			return true
		}
		guarded := false
		for _, a := range u.Atoms {
			if a.Unit == u && atomNilTests(u, a, isFieldSel) && u.Guards(a, n) {
				guarded = true
			}
		}
		if !guarded && (shortCircuitGuarded(u, n, isFieldSel) || nilGuardedCFG(u, n, isFieldSel)) {
			guarded = true
		}
		if !guarded {
			bad, what = n, kind
		}
		return true
	})
	return bad, what
}

// paramDerefUnchecked: does function f dereference its idx-th parameter (field access, method call that
// does not tolerate nil, *p) without a dominating nil test? Follows in-module static calls two levels.
func paramDerefUnchecked(r *Run, f *types.Func, idx, depth int, seen map[*types.Func]bool) string {
	if depth > 2 || seen[f] {
		return ""
	}
	seen[f] = true
	fd := r.Prog.Funcs[f]
	if fd == nil {
		return ""
	}
	sig := f.Type().(*types.Signature)
	if idx >= sig.Params().Len() {
		if !sig.Variadic() {
			return ""
		}
		idx = sig.Params().Len() - 1
	}
	pv := sig.Params().At(idx)
	if sig.Variadic() && idx == sig.Params().Len()-1 {
		return "" // element of a variadic slice: not tracked
	}
	if !nilable(pv.Type()) {
		return ""
	}
	u := r.G.UnitOf(fd)
	isP := func(e ast.Expr) bool { return isVarIdent(u.Info, e, pv) }
	res := ""
	ast.Inspect(u.Body, func(n ast.Node) bool {
		if res != "" {
			return false
		}
		if _, ok := n.(*ast.FuncLit); ok {
			return false
		}
		kind := ""
		switch x := n.(type) {
		case *ast.SelectorExpr:
			if isP(x.X) {
				kind = "dereferences it (." + x.Sel.Name + ")"
				if m, ok := u.Info.Uses[x.Sel].(*types.Func); ok && methodToleratesNilRecv(r, m) {
					kind = ""
				}
			}
		case *ast.StarExpr:
			if isP(x.X) {
				kind = "dereferences it (*)"
			}
		case *ast.CallExpr:
			for i, arg := range x.Args {
				if isP(arg) {
					if g := typeutil.StaticCallee(u.Info, x); g != nil && InModule(g) {
						if why := paramDerefUnchecked(r, g.Origin(), i, depth+1, seen); why != "" {
							kind = "passes it to " + g.Name() + " which " + why
						}
					}
				}
			}
		}
		if kind == "" {
			return true
		}
		for _, a := range u.Atoms {
			if a.Unit == u && atomNilTests(u, a, isP) && u.Guards(a, n) {
				return true
			}
		}
		if shortCircuitGuarded(u, n, isP) || nilGuardedCFG(u, n, isP) {
			return true
		}
		res = kind + " at " + r.Prog.RelPos(n.Pos())
		return true
	})
	return res
}

// methodToleratesNilRecv: the method's body starts with a nil test of its receiver that returns, or
// never uses its receiver.
func methodToleratesNilRecv(r *Run, f *types.Func) bool {
	fd := r.Prog.Funcs[f.Origin()]
	if fd == nil || fd.Decl.Recv == nil || len(fd.Decl.Recv.List) == 0 {
		return false
	}
	sig := f.Type().(*types.Signature)
	if _, isPtr := sig.Recv().Type().(*types.Pointer); !isPtr {
		return false
	}
	names := fd.Decl.Recv.List[0].Names
	if len(names) == 0 || names[0].Name == "_" {
		return true
	}
	rv, _ := fd.Pkg.TypesInfo.Defs[names[0]].(*types.Var)
	if rv == nil {
		return false
	}
	used := false
	ast.Inspect(fd.Decl.Body, func(n ast.Node) bool {
		if id, ok := n.(*ast.Ident); ok && fd.Pkg.TypesInfo.Uses[id] == rv {
			used = true
		}
		return true
	})
	if !used {
		return true
	}
	if len(fd.Decl.Body.List) == 0 {
		return true
	}
	if ifs, ok := fd.Decl.Body.List[0].(*ast.IfStmt); ok {
		isNilTest := false
		ast.Inspect(ifs.Cond, func(n ast.Node) bool {
			if be, ok := n.(*ast.BinaryExpr); ok && be.Op == token.EQL {
				if isVarIdent(fd.Pkg.TypesInfo, be.X, rv) && isNilIdent(fd.Pkg.TypesInfo, be.Y) {
					isNilTest = true
				}
			}
			return true
		})
		if isNilTest && len(ifs.Body.List) > 0 {
			_, ret := ifs.Body.List[len(ifs.Body.List)-1].(*ast.ReturnStmt)
			return ret
		}
	}
	return false
}

// C12.S3/S4: writer/reader agreement and tag table.
func checkWriterReader(r *Run) {
	r.Rule("C12.S3", "writer/reader agreement: for every type with both MarshalCBOR and UnmarshalCBOR the DTO type handed to serde.MarshalCBOR[Tagged] is the DTO type requested from serde.UnmarshalCBOR (after pointer stripping); tagged writers use the tag the type is registered with")
	r.Rule("C12.S4", "type tags: the constants passed to serde.Register are pairwise distinct")
	p := r.Prog
	type rw struct {
		m, u   *FuncDecl
		mT, uT map[string]bool
		mTag   string
		mPos   token.Pos
	}
	byType := map[string]*rw{}
	get := func(fd *FuncDecl) *rw {
		k := FuncKey(fd.Obj)
		k = k[:strings.LastIndex(k, ".")]
		if byType[k] == nil {
			byType[k] = &rw{mT: map[string]bool{}, uT: map[string]bool{}}
		}
		return byType[k]
	}
	stripPtr := func(t types.Type) string {
		if pt, ok := t.(*types.Pointer); ok {
			t = pt.Elem()
		}
		return shortType(t)
	}
	for _, fd := range p.FuncsIn(Scope{Include: []string{"pkg/"}}) {
		if fd.Decl.Recv == nil {
			continue
		}
		info := fd.Pkg.TypesInfo
		switch fd.Obj.Name() {
		case "MarshalCBOR":
			e := get(fd)
			e.m = fd
			ast.Inspect(fd.Decl.Body, func(n ast.Node) bool {
				c, ok := n.(*ast.CallExpr)
				if !ok {
					return true
				}
				f := typeutil.StaticCallee(info, c)
				if f == nil {
					return true
				}
				switch FuncKey(f) {
				case "pkg/base/serde.MarshalCBOR", "pkg/base/serde.MarshalCBORTagged":
					if len(c.Args) > 0 {
						e.mT[stripPtr(info.TypeOf(c.Args[0]))] = true
						e.mPos = c.Pos()
					}
					if f.Name() == "MarshalCBORTagged" && len(c.Args) > 1 {
						if v, _ := constOf(info, c.Args[1]); v != nil {
							e.mTag = v.ExactString()
						}
					}
				}
				return true
			})
		case "UnmarshalCBOR":
			e := get(fd)
			e.u = fd
			ast.Inspect(fd.Decl.Body, func(n ast.Node) bool {
				c, ok := n.(*ast.CallExpr)
				if !ok {
					return true
				}
				f := typeutil.StaticCallee(info, c)
				if f != nil && FuncKey(f) == "pkg/base/serde.UnmarshalCBOR" {
					if tup, ok := info.TypeOf(c).(*types.Tuple); ok && tup.Len() > 0 {
						e.uT[stripPtr(tup.At(0).Type())] = true
					}
				}
				return true
			})
		}
	}
	// registered tags
	regTag := map[string]string{} // type string -> tag
	tagOwner := map[string]string{}
	nReg := 0
	for _, fd := range p.AllFuncsIn(Scope{Include: []string{"pkg/"}}) {
		info := fd.Pkg.TypesInfo
		ast.Inspect(fd.Decl.Body, func(n ast.Node) bool {
			c, ok := n.(*ast.CallExpr)
			if !ok || len(c.Args) != 1 {
				return true
			}
			f := typeutil.StaticCallee(info, c)
			if f == nil || FuncKey(f) != "pkg/base/serde.Register" {
				return true
			}
			nReg++
			v, _ := constOf(info, c.Args[0])
			inst := info.Instances[calleeIdent(c.Fun)]
			tname := "?"
			if inst.TypeArgs != nil && inst.TypeArgs.Len() == 1 {
				tname = stripPtr(inst.TypeArgs.At(0))
			}
			if v == nil {
				r.Fail("C12.S4", tname, p.RelPos(c.Pos()), "tag passed to serde.Register is not a compile-time constant")
				return true
			}
			tag := v.ExactString()
			if prev, dup := tagOwner[tag]; dup && prev != tname {
				r.Fail("C12.S4", tname, p.RelPos(c.Pos()), "tag "+tag+" is registered for both "+prev+" and "+tname)
			} else {
				r.Pass("C12.S4", tname, p.RelPos(c.Pos()), "tag "+tag)
			}
			tagOwner[tag] = tname
			regTag[pkgQual(fd, tname)] = tag
			return true
		})
	}
	r.RequireCount("C12.S4", "Register calls", nReg, 14)
	keys := []string{}
	for k := range byType {
		keys = append(keys, k)
	}
	sort.Strings(keys)
	both := 0
	for _, k := range keys {
		e := byType[k]
		if e.m == nil || e.u == nil {
			continue
		}
		both++
		mS, uS := setString(e.mT), setString(e.uT)
		if len(e.mT) == 0 || len(e.uT) == 0 {
			// one side does not use a DTO through serde (e.g. encodes bytes directly): nothing to compare
			r.Pass("C12.S3", k, p.RelPos(e.u.Decl.Pos()), "no DTO pair (writer `"+mS+"`, reader `"+uS+"`)")
			continue
		}
		r.Check(mS == uS, "C12.S3", k, p.RelPos(e.u.Decl.Pos()), "writer encodes `"+mS+"`, reader decodes `"+uS+"`")
		if e.mTag != "" {
			// type name of the receiver
			tn := k[strings.LastIndex(k, "(")+1 : len(k)-1]
			tn = strings.TrimPrefix(tn, "*")
			if reg, ok := regTag[pkgQual(e.m, e.m.Pkg.Types.Name()+"."+tn)]; ok {
				r.Check(reg == e.mTag, "C12.S3", k+" :: tag", p.RelPos(e.mPos), "tagged writer uses tag "+e.mTag+", type is registered with "+reg)
			}
		}
	}
	r.RequireCount("C12.S3", "types with both methods", both, 120)
}

func calleeIdent(e ast.Expr) *ast.Ident {
	switch x := ast.Unparen(e).(type) {
	case *ast.Ident:
		return x
	case *ast.SelectorExpr:
		return x.Sel
	case *ast.IndexExpr:
		return calleeIdent(x.X)
	case *ast.IndexListExpr:
		return calleeIdent(x.X)
	}
	return nil
}

// pkgQual qualifies a short type name with the declaring package path to keep keys unique.
func pkgQual(fd *FuncDecl, t string) string {
	// generic instantiations print with their arguments; cut them
	if i := strings.IndexByte(t, '['); i >= 0 {
		t = t[:i]
	}
	return fd.Pkg.PkgPath + "|" + t
}

func setString(m map[string]bool) string {
	ks := []string{}
	for k := range m {
		ks = append(ks, k)
	}
	sort.Strings(ks)
	return strings.Join(ks, " | ")
}

// shortCircuitGuarded: n lies in the right operand of `X && Y` where X contains the conjunct
// `p != nil` / `!IsNil(p)`, or of `X || Y` where X contains the disjunct `p == nil` / `IsNil(p)`.
func shortCircuitGuarded(u *Unit, n ast.Node, match func(ast.Expr) bool) bool {
	path := pathTo(u.Body, n)
	for i := len(path) - 2; i >= 0; i-- {
		be, ok := path[i].(*ast.BinaryExpr)
		if !ok || (be.Op != token.LAND && be.Op != token.LOR) {
			continue
		}
		child := path[i+1]
		if child != ast.Node(be.Y) {
			continue
		}
		if nilLeaf(u, be.X, be.Op, match) {
			return true
		}
	}
	return false
}

// nilLeaf: e (a chain of the same operator op) contains a leaf that establishes p != nil for the right operand.
func nilLeaf(u *Unit, e ast.Expr, op token.Token, match func(ast.Expr) bool) bool {
	e = ast.Unparen(e)
	if be, ok := e.(*ast.BinaryExpr); ok && be.Op == op {
		return nilLeaf(u, be.X, op, match) || nilLeaf(u, be.Y, op, match)
	}
	neg := false
	for {
		if ue, ok := e.(*ast.UnaryExpr); ok && ue.Op == token.NOT {
			neg = !neg
			e = ast.Unparen(ue.X)
			continue
		}
		break
	}
	isNilTest, positive := false, false // positive: expression is true when p IS nil
	switch x := e.(type) {
	case *ast.BinaryExpr:
		if (x.Op == token.EQL || x.Op == token.NEQ) && (isNilIdent(u.Info, x.Y) && match(x.X) || isNilIdent(u.Info, x.X) && match(x.Y)) {
			isNilTest, positive = true, x.Op == token.EQL
		}
	case *ast.CallExpr:
		if f, _ := typeutil.Callee(u.Info, x).(*types.Func); f != nil && f.Name() == "IsNil" {
			for _, a := range x.Args {
				if match(a) {
					isNilTest, positive = true, true
				}
			}
		}
	}
	if !isNilTest {
		return false
	}
	if neg {
		positive = !positive
	}
	// in `X && Y`, Y runs when X is true: need X to state p != nil (positive == false)
	// in `X || Y`, Y runs when X is false: need X to state p == nil (positive == true)
	if op == token.LAND {
		return !positive
	}
	return positive
}

func pathTo(root ast.Node, target ast.Node) []ast.Node {
	var path, found []ast.Node
	ast.Inspect(root, func(x ast.Node) bool {
		if found != nil {
			return false
		}
		if x == nil {
			path = path[:len(path)-1]
			return true
		}
		path = append(path, x)
		if x == target {
			found = append([]ast.Node{}, path...)
			return false
		}
		return true
	})
	return found
}

// nilGuardedCFG: some branch condition B that dominates n establishes match != nil on every path to n:
// either `p == nil` is a disjunct of B's condition and n is unreachable from B's true successor
// (without passing B again), or `p != nil` is a conjunct and n is unreachable from the false successor.
func nilGuardedCFG(u *Unit, n ast.Node, match func(ast.Expr) bool) bool {
	nb := u.BlockOf(n)
	if nb == nil {
		return false
	}
	for _, b := range u.CFG.Blocks {
		if !b.Live || len(b.Succs) != 2 || len(b.Nodes) == 0 || b == nb || !u.Dominates(b, nb) {
			continue
		}
		cond, ok := b.Nodes[len(b.Nodes)-1].(ast.Expr)
		if !ok {
			continue
		}
		// cond true ⇒ ?  / cond false ⇒ ?
		if impliesNonNilWhenFalse(u, cond, match) && !reachableAvoiding(b.Succs[0], nb, b) {
			return true
		}
		if impliesNonNilWhenTrue(u, cond, match) && !reachableAvoiding(b.Succs[1], nb, b) {
			return true
		}
	}
	return false
}

// cond false ⇒ p != nil : cond is a disjunction containing `p == nil` / IsNil(p)
func impliesNonNilWhenFalse(u *Unit, cond ast.Expr, match func(ast.Expr) bool) bool {
	return nilLeaf(u, cond, token.LOR, match)
}

// cond true ⇒ p != nil : cond is a conjunction containing `p != nil` / !IsNil(p)
func impliesNonNilWhenTrue(u *Unit, cond ast.Expr, match func(ast.Expr) bool) bool {
	return nilLeaf(u, cond, token.LAND, match)
}

func reachableAvoiding(from, to, avoid *cfgBlock) bool {
	seen := map[*cfgBlock]bool{}
	var dfs func(b *cfgBlock) bool
	dfs = func(b *cfgBlock) bool {
		if b == to {
			return true
		}
		if b == avoid || seen[b] {
			return false
		}
		seen[b] = true
		for _, s := range b.Succs {
			if dfs(s) {
				return true
			}
		}
		return false
	}
	return dfs(from)
}
