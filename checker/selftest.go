package main

// runSelfTest is the thorough-tier sensitivity self-test (overlay mutants); filled in per property.
func runSelfTest(r *Run, spec *propSpec) {
	for _, m := range mutantsFor(spec.ID) {
		applyMutant(r, spec, m)
	}
}

type mutant struct {
	Name    string
	File    string // repo-relative
	Old     string // unique substring to replace
	New     string
	Expect  string // substring that must occur in some violation (rule id or instance)
}

func mutantsFor(id string) []mutant { return mutantCatalogue[id] }

var mutantCatalogue = map[string][]mutant{}

func applyMutant(r *Run, spec *propSpec, m mutant) {}
