package main

import (
	"fmt"
	"os"
	"path/filepath"
	"runtime"
	"runtime/debug"
	"strings"
)

// Thorough-tier sensitivity self-test: each mutant is a source rewrite applied through
// packages.Config.Overlay (in memory; nothing is written to disk, nothing is executed). The
// affected program is re-loaded and re-analysed; the rule must report the mutated construct.

type mutant struct {
	Benign bool // a behaviour-preserving rewrite: the rules must stay silent
	Name   string
	File   string // repo-relative
	Old    string // substring (must occur exactly once)
	New    string
	Expect string // substring that must occur in a violation line (rule id / instance / detail)
}

var mutantCatalogue = map[string][]mutant{}

func addMutants(prop string, ms ...mutant) {
	mutantCatalogue[prop] = append(mutantCatalogue[prop], ms...)
}

// loadMutants reads checker/mutants.json: {"C04": [{"name":..,"file":..,"old":..,"new":..,"expect":..}, …], …}
func loadMutants() {
	var m map[string][]struct {
		Name, File, Old, New, Expect string
		Benign                       bool
	}
	if err := readJSON(filepath.Join(verifDir(), "checker", "mutants.json"), &m); err != nil {
		return
	}
	for prop, ms := range m {
		for _, x := range ms {
			addMutants(prop, mutant{Name: x.Name, File: x.File, Old: x.Old, New: x.New, Expect: x.Expect, Benign: x.Benign})
		}
	}
}

func runSelfTest(r *Run, spec *propSpec) {
	loadMutants()
	ms := mutantCatalogue[spec.ID]
	seeds := seededFor(spec.ID)
	if bd, _ := filepath.Glob(filepath.Join(verifDir(), "benign", spec.ID+"-*")); len(ms) == 0 && len(seeds) == 0 && len(bd) == 0 {
		return
	}
	defer runSeeded(r, spec, seeds)
	defer runBenign(r, spec)
	r.Rule(spec.ID+".SELF", "checker sensitivity: every catalogued source rewrite (overlay, in memory) that breaks a clause must be reported by the rule naming the mutated construct, and every catalogued behaviour-preserving rewrite (renamed locals, cached operands, split statements, added checks, reordered independent checks, equivalent conditions, loop forms) must not be reported; a surviving mutant or a false alarm fails the thorough check")
	st := &MutantStats{}
	r.Mutants = st
	for _, m := range ms {
		viol, err := analyseMutant(spec, m)
		if err != nil {
			st.Skipped++
			st.Names = append(st.Names, m.Name+": skipped ("+firstLine(err.Error())+")")
			continue
		}
		st.Applied++
		if m.Benign {
			if len(viol) == 0 {
				st.Killed++
				st.Names = append(st.Names, m.Name+": silent (benign rewrite)")
				r.Pass(spec.ID+".SELF", m.Name, m.File, "behaviour-preserving rewrite is not reported")
			} else {
				st.Names = append(st.Names, m.Name+": FALSE ALARM")
				r.FailKind("checker-overreports", spec.ID+".SELF", m.Name, fmt.Sprintf("behaviour-preserving rewrite of %s is reported: %s", m.File, viol[0]))
			}
			continue
		}
		hit := ""
		for _, v := range viol {
			if strings.Contains(v, m.Expect) {
				hit = v
				break
			}
		}
		if hit != "" {
			st.Killed++
			st.Names = append(st.Names, m.Name+": reported")
			r.Pass(spec.ID+".SELF", m.Name, m.File, "mutant reported: "+hit)
		} else {
			st.Names = append(st.Names, m.Name+": SURVIVED")
			r.FailKind("checker-insensitive", spec.ID+".SELF", m.Name, fmt.Sprintf("mutant of %s was not reported (expected a violation mentioning %q; got %d other violations)", m.File, m.Expect, len(viol)))
		}
	}
}

func firstLine(s string) string {
	if i := strings.IndexByte(s, '\n'); i >= 0 {
		return s[:i]
	}
	return s
}

// analyseMutant returns the violation lines (rule | key | detail) of the property's rules on the mutated tree.
func analyseMutant(spec *propSpec, m mutant) ([]string, error) {
	path := filepath.Join(repoRoot(), m.File)
	src, err := os.ReadFile(path)
	if err != nil {
		return nil, err
	}
	if c := strings.Count(string(src), m.Old); c != 1 {
		return nil, fmt.Errorf("mutation site occurs %d times in %s (tree differs from the pinned one)", c, m.File)
	}
	mutated := strings.Replace(string(src), m.Old, m.New, 1)
	prog, err := LoadProgram(map[string][]byte{path: []byte(mutated)}, false)
	if err != nil {
		return nil, fmt.Errorf("mutant does not load: %w", err)
	}
	sub := NewRun(spec.ID, "mutant", prog)
	func() {
		defer func() {
			if e := recover(); e != nil {
				sub.FailKind("engine-panic", spec.ID+".ENGINE", "panic", fmt.Sprint(e))
			}
		}()
		spec.Check(sub)
	}()
	var out []string
	for _, o := range sub.Obls {
		if !o.OK && !o.Known {
			out = append(out, fmt.Sprintf("%s | %s | %s | %s", o.Rule, o.Key, o.Pos, o.Detail))
		}
	}
	prog = nil
	sub = nil
	runtime.GC()
	debug.FreeOSMemory()
	return out, nil
}

// runMutateCLI: bcv mutate <prop> <file> <old> <new> – development aid and replay of self-test entries.
func runMutateCLI(args []string) int {
	if len(args) < 4 {
		usage()
	}
	spec := props[args[0]]
	if spec == nil {
		fmt.Fprintln(os.Stderr, "unknown property")
		return 2
	}
	viol, err := analyseMutant(spec, mutant{Name: "cli", File: args[1], Old: args[2], New: args[3]})
	if err != nil {
		fmt.Fprintln(os.Stderr, err)
		return 2
	}
	for _, v := range viol {
		fmt.Println(v)
	}
	fmt.Printf("%d violations\n", len(viol))
	return 0
}

// ---- seeded changes as thorough-tier mutants ----

type seededChange struct {
	ID     string
	Patch  string
	Expect bool // the quick check is known to report it (seeded/EXPECT.json)
}

func seededFor(prop string) []seededChange {
	var expect map[string]bool
	if err := readJSON(filepath.Join(verifDir(), "seeded", "EXPECT.json"), &expect); err != nil {
		return nil
	}
	dirs, _ := filepath.Glob(filepath.Join(verifDir(), "seeded", "C*"))
	var out []seededChange
	for _, d := range dirs {
		var meta struct{ Property string }
		if err := readJSON(filepath.Join(d, "meta.json"), &meta); err != nil || meta.Property != prop {
			continue
		}
		bs, err := os.ReadFile(filepath.Join(d, "patch.diff"))
		if err != nil {
			continue
		}
		id := filepath.Base(d)
		out = append(out, seededChange{ID: id, Patch: string(bs), Expect: expect[id]})
	}
	return out
}

// runSeeded re-analyses the tree with each independently written breaking change applied in memory:
// the ones the quick check is known to report must still be reported (regression of the checker), the
// known misses are listed as such.
func runSeeded(r *Run, spec *propSpec, seeds []seededChange) {
	if len(seeds) == 0 {
		return
	}
	r.Rule(spec.ID+".SEED", "seeded changes: every independently written breaking change of this property stored under seeded/ (applied as an in-memory overlay) that the rules are known to report is still reported; known misses are listed, not hidden")
	st := r.Mutants
	if st == nil {
		st = &MutantStats{}
		r.Mutants = st
	}
	for _, sc := range seeds {
		ov, err := applyUnifiedDiff(repoRoot(), sc.Patch)
		if err != nil {
			st.Skipped++
			st.Names = append(st.Names, sc.ID+": skipped ("+firstLine(err.Error())+")")
			continue
		}
		viol, err := analyseOverlay(spec, ov)
		if err != nil {
			st.Skipped++
			st.Names = append(st.Names, sc.ID+": skipped ("+firstLine(err.Error())+")")
			continue
		}
		st.Applied++
		switch {
		case len(viol) > 0:
			st.Killed++
			st.Names = append(st.Names, sc.ID+": reported")
			r.Pass(spec.ID+".SEED", sc.ID, "seeded/"+sc.ID, "reported: "+viol[0])
		case !sc.Expect:
			st.Names = append(st.Names, sc.ID+": known miss (see DESIGN §8)")
			r.Pass(spec.ID+".SEED", sc.ID, "seeded/"+sc.ID, "known miss: outside what the static rules decide (DESIGN §8)")
		default:
			st.Names = append(st.Names, sc.ID+": NO LONGER REPORTED")
			r.FailKind("checker-insensitive", spec.ID+".SEED", sc.ID, "seeded change "+sc.ID+" used to be reported and no longer is")
		}
	}
}

// runBenign re-analyses the tree with each stored behaviour-preserving refactoring (benign/<id>/patch.diff,
// written by independent agents told to keep behaviour identical) applied in memory. Those recorded as
// silent must stay silent – a report would be a false alarm of the checker; the ones the rules are known
// to report although behaviour is unchanged (DESIGN §10) are listed, not hidden.
func runBenign(r *Run, spec *propSpec) {
	dirs, _ := filepath.Glob(filepath.Join(verifDir(), "benign", spec.ID+"-*"))
	if len(dirs) == 0 {
		return
	}
	r.Rule(spec.ID+".BENIGN", "no false alarm on stored behaviour-preserving refactorings: every refactoring under benign/ recorded as silent (helper extraction, renames, cached operands, early-return inversion, loop forms, merged / split conditions, moved functions …) applied as an in-memory overlay yields no violation; refactorings the rules are known to over-report are listed with the reporting rule")
	st := r.Mutants
	if st == nil {
		st = &MutantStats{}
		r.Mutants = st
	}
	for _, d := range dirs {
		var meta struct {
			Silent bool
			Kind   string
		}
		if err := readJSON(filepath.Join(d, "meta.json"), &meta); err != nil {
			continue
		}
		id := "benign/" + filepath.Base(d)
		bs, err := os.ReadFile(filepath.Join(d, "patch.diff"))
		if err != nil {
			continue
		}
		ov, err := applyUnifiedDiff(repoRoot(), string(bs))
		if err != nil {
			st.Skipped++
			st.Names = append(st.Names, id+": skipped ("+firstLine(err.Error())+")")
			continue
		}
		viol, err := analyseOverlay(spec, ov)
		if err != nil {
			st.Skipped++
			st.Names = append(st.Names, id+": skipped ("+firstLine(err.Error())+")")
			continue
		}
		st.Applied++
		switch {
		case len(viol) == 0:
			st.Killed++
			st.Names = append(st.Names, id+": silent")
			r.Pass(spec.ID+".BENIGN", id, id, "behaviour-preserving refactoring ("+meta.Kind+") is not reported")
		case !meta.Silent:
			st.Names = append(st.Names, id+": known over-report ("+firstLine(viol[0])+")")
			r.Pass(spec.ID+".BENIGN", id, id, "known over-report (DESIGN §10): "+viol[0])
		default:
			st.Names = append(st.Names, id+": FALSE ALARM")
			r.FailKind("checker-overreports", spec.ID+".BENIGN", id, "behaviour-preserving refactoring is reported: "+viol[0])
		}
	}
}

func analyseOverlay(spec *propSpec, overlay map[string][]byte) ([]string, error) {
	prog, err := LoadProgram(overlay, false)
	if err != nil {
		return nil, fmt.Errorf("does not load: %w", err)
	}
	sub := NewRun(spec.ID, "mutant", prog)
	func() {
		defer func() {
			if e := recover(); e != nil {
				sub.FailKind("engine-panic", spec.ID+".ENGINE", "panic", fmt.Sprint(e))
			}
		}()
		spec.Check(sub)
	}()
	var out []string
	for _, o := range sub.Obls {
		if !o.OK && !o.Known {
			out = append(out, fmt.Sprintf("%s | %s | %s", o.Rule, o.Key, o.Pos))
		}
	}
	prog, sub = nil, nil
	runtime.GC()
	debug.FreeOSMemory()
	return out, nil
}
