package main

import (
	"fmt"
	"go/ast"
	"go/types"
	"sort"
	"strings"
)

// Selector disjointness: methods that pick one field of their receiver per case (e.g. the
// domain-separation tag for a mode) must return pairwise different fields, and two such selector
// methods of one type must not hand out the same field (a copy/paste that returns the signature tag
// from the proof-of-possession selector removes the domain separation). The constant values stored
// into those fields by composite literals must be pairwise distinct as well.
func (r *Run) CheckSelectorDisjoint(rule string, scope Scope, min int) {
	r.Rule(rule, "selector disjointness: case-selecting accessor methods return pairwise different fields of their receiver, different selectors of one type return disjoint field sets, and the constants stored in those fields are pairwise distinct")
	type sel struct {
		fd     *FuncDecl
		fields []string
	}
	byType := map[string][]sel{}
	fieldVars := map[string]*types.Var{}
	for _, fd := range r.Prog.FuncsIn(scope) {
		if fd.Decl.Recv == nil || len(fd.Decl.Recv.List) == 0 || len(fd.Decl.Recv.List[0].Names) == 0 {
			continue
		}
		info := fd.Pkg.TypesInfo
		rv, _ := info.Defs[fd.Decl.Recv.List[0].Names[0]].(*types.Var)
		if rv == nil {
			continue
		}
		var fields []string
		ok := true
		nret := 0
		ast.Inspect(fd.Decl.Body, func(n ast.Node) bool {
			if _, isLit := n.(*ast.FuncLit); isLit {
				return false
			}
			ret, isRet := n.(*ast.ReturnStmt)
			if !isRet || len(ret.Results) == 0 {
				return true
			}
			nret++
			e := ast.Unparen(ret.Results[0])
			if s, isSel := e.(*ast.SelectorExpr); isSel && isVarIdent(info, s.X, rv) {
				if fv, isField := info.Uses[s.Sel].(*types.Var); isField && fv.IsField() {
					fields = append(fields, fv.Name())
					fieldVars[FuncKey(fd.Obj)+"."+fv.Name()] = fv
					return true
				}
			}
			// zero value / error return on the default path is fine
			if tv, has := info.Types[e]; has && tv.Value != nil {
				return true
			}
			if isNilIdent(info, e) {
				return true
			}
			ok = false
			return true
		})
		if !ok || len(fields) < 2 {
			continue
		}
		tkey := FuncKey(fd.Obj)
		tkey = tkey[:strings.LastIndex(tkey, ".")]
		byType[tkey] = append(byType[tkey], sel{fd, fields})
	}
	n := 0
	tkeys := []string{}
	for k := range byType {
		tkeys = append(tkeys, k)
	}
	sort.Strings(tkeys)
	for _, tk := range tkeys {
		sels := byType[tk]
		owner := map[string]string{}
		for _, s := range sels {
			n++
			key := FuncKey(s.fd.Obj)
			seen := map[string]bool{}
			bad := ""
			for _, f := range s.fields {
				if seen[f] {
					bad = "returns field " + f + " in two different cases"
				}
				seen[f] = true
				if o, taken := owner[f]; taken && o != key {
					bad = "returns field " + f + ", which selector " + o + " also returns: the two selectors are no longer domain-separated"
				}
			}
			for f := range seen {
				if _, taken := owner[f]; !taken {
					owner[f] = key
				}
			}
			r.Check(bad == "", rule, key, r.Prog.RelPos(s.fd.Decl.Pos()), fmt.Sprintf("selector over %v %s", s.fields, bad))
		}
		// constants stored into the selected fields by composite literals of the type
		fieldsOfInterest := map[string]bool{}
		for f := range owner {
			fieldsOfInterest[f] = true
		}
		for _, fd := range r.Prog.FuncsIn(scope) {
			info := fd.Pkg.TypesInfo
			ast.Inspect(fd.Decl.Body, func(nd ast.Node) bool {
				cl, isCL := nd.(*ast.CompositeLit)
				if !isCL {
					return true
				}
				vals := map[string]string{}
				for _, el := range cl.Elts {
					kv, isKV := el.(*ast.KeyValueExpr)
					if !isKV {
						continue
					}
					id, isID := kv.Key.(*ast.Ident)
					if !isID || !fieldsOfInterest[id.Name] {
						continue
					}
					if fv, isF := info.Uses[id].(*types.Var); !isF || !fv.IsField() {
						continue
					}
					if tv, has := info.Types[kv.Value]; has && tv.Value != nil {
						v := tv.Value.ExactString()
						if prev, dup := vals[v]; dup {
							r.Fail(rule, tk+" literal :: "+id.Name, r.Prog.RelPos(kv.Pos()), "fields "+prev+" and "+id.Name+" are initialised with the same constant "+v)
						}
						vals[v] = id.Name
					}
				}
				return true
			})
		}
	}
	r.RequireCount(rule, "selector methods", n, min)
}
