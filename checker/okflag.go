package main

import (
	"go/ast"
	"go/types"
	"strings"

	"golang.org/x/tools/go/types/typeutil"
)

// Engine O: ok-flags of fallible constant-time primitives must be consumed.
// A call whose (last) result is a ct.Bool / ct.Choice success flag may not stand alone as a statement
// nor have that result assigned to the blank identifier, unless the site is in the exemption table.
func (r *Run) CheckOkFlags(rule string, scope Scope, exempt map[string]string, min int) {
	r.Rule(rule, "ok-flag discipline: the success flag (ct.Bool / ct.Choice) returned by a fallible big-number, field or point primitive is never dropped (call used as a statement, or flag assigned to _); a dropped flag lets a failed inversion/division/decoding continue with a garbage value")
	n := 0
	for _, fd := range r.Prog.FuncsIn(scope) {
		info := fd.Pkg.TypesInfo
		flagIdx := func(call *ast.CallExpr) (int, int, bool) {
			t := info.TypeOf(call)
			switch tt := t.(type) {
			case *types.Tuple:
				for i := tt.Len() - 1; i >= 0; i-- {
					if isCtFlag(tt.At(i).Type()) {
						return i, tt.Len(), true
					}
				}
			default:
				if t != nil && isCtFlag(t) {
					return 0, 1, true
				}
			}
			return 0, 0, false
		}
		report := func(call *ast.CallExpr, how string) {
			callee := "dynamic"
			if f, _ := typeutil.Callee(info, call).(*types.Func); f != nil {
				callee = FuncKey(f)
				// pure predicates (IsZero, Equal, …) used for their side effect make no sense either, but only
				// mutating primitives matter: require a pointer receiver or pointer out-parameter
				if !mutates(f) {
					return
				}
			}
			key := FuncKey(fd.Obj) + " -> " + callee
			if why, ok := exempt[key]; ok {
				r.UseExempt(rule+" "+key, why)
				r.Pass(rule, key, r.Prog.RelPos(call.Pos()), "exempt: "+why)
				return
			}
			r.Fail(rule, key, r.Prog.RelPos(call.Pos()), "success flag of "+callee+" is dropped ("+how+")")
		}
		ast.Inspect(fd.Decl.Body, func(nd ast.Node) bool {
			switch x := nd.(type) {
			case *ast.ExprStmt:
				if c, ok := x.X.(*ast.CallExpr); ok {
					if _, _, has := flagIdx(c); has {
						n++
						report(c, "call used as a statement")
					}
				}
			case *ast.AssignStmt:
				if len(x.Rhs) == 1 {
					if c, ok := ast.Unparen(x.Rhs[0]).(*ast.CallExpr); ok {
						if i, total, has := flagIdx(c); has && len(x.Lhs) == total {
							n++
							if id := identOf(x.Lhs[i]); id != nil && id.Name == "_" {
								report(c, "flag assigned to _")
							}
						}
					}
				}
			}
			return true
		})
	}
	r.RequireCount(rule, "flag-returning call statements", n, min)
}

// mutates: the function writes through its receiver or a pointer parameter (a fallible setter), as
// opposed to a pure predicate.
func mutates(f *types.Func) bool {
	sig := f.Type().(*types.Signature)
	name := f.Name()
	if strings.HasPrefix(name, "Is") || name == "Equal" || name == "Compare" || strings.HasPrefix(name, "Lt") || strings.HasPrefix(name, "Gt") {
		return false
	}
	if sig.Recv() != nil {
		if _, ok := sig.Recv().Type().(*types.Pointer); ok {
			return true
		}
	}
	for i := 0; i < sig.Params().Len(); i++ {
		if _, ok := sig.Params().At(i).Type().(*types.Pointer); ok {
			return true
		}
	}
	return false
}
