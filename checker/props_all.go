package main

import "regexp"

func init() {
	register(&propSpec{ID: "C02", Extra: []extraScope{{"linalg", Scope{Include: []string{"pkg/base/mat/", "pkg/base/polynomials/interpolation/"}}, 20}}, SeqScope: Scope{Include: []string{"pkg/mpc/sharing/scheme/", "pkg/mpc/sharing/accessstructures/"}}, MinSeq: 40, MinFuncs: 40, Check: checkC02,
		Scope: Scope{Include: []string{"pkg/mpc/sharing/accessstructures/", "pkg/mpc/sharing/scheme/"}}})
	register(&propSpec{ID: "C04", StoreScope: Scope{Include: []string{"pkg/mpc/"}, Exclude: []string{"pkg/mpc/sharing/"}}, MinStores: 50, FrameScope: Scope{Include: []string{"pkg/mpc/"}, Exclude: []string{"pkg/mpc/sharing/", "pkg/mpc/rvole/", "pkg/mpc/session/", "pkg/mpc/zero/przs/"}}, MinFrame: 5, MinFuncs: 150, Check: checkC04,
		Scope: Scope{Include: []string{"pkg/mpc/", "pkg/network/mpc.go", "pkg/base/errors.go"}, Exclude: []string{"pkg/mpc/sharing/"}}})
	register(&propSpec{ID: "C05", SeqScope: Scope{Include: []string{"pkg/mpc/sharing/vss/", "pkg/mpc/sharing/scheme/kw/", "pkg/mpc/base.go"}}, MinSeq: 20, MinFuncs: 20, Check: checkC05,
		Scope: Scope{Include: []string{"pkg/mpc/sharing/vss/", "pkg/mpc/sharing/scheme/kw/", "pkg/base/mat/module_valued.go", "pkg/mpc/base.go"}}})
	register(&propSpec{ID: "C06", Extra: []extraScope{{"vss", Scope{Include: []string{"pkg/mpc/sharing/vss/"}}, 10}}, SeqScope: Scope{Include: []string{"pkg/mpc/redistribute/", "pkg/mpc/zero/hjky/"}}, MinSeq: 8, StoreScope: Scope{Include: []string{"pkg/mpc/redistribute/", "pkg/mpc/zero/hjky/"}}, MinStores: 3, MinFuncs: 8, Check: checkC06,
		Scope: Scope{Include: []string{"pkg/mpc/redistribute/", "pkg/mpc/zero/hjky/"}}})
	register(&propSpec{ID: "C07", MinFuncs: 150, MinFrame: 30, Check: checkC07,
		Scope:      Scope{Include: []string{"pkg/mpc/", "pkg/ot/"}, Exclude: []string{"pkg/mpc/sharing/"}},
		FrameScope: Scope{Include: []string{"pkg/mpc/", "pkg/ot/"}, Exclude: []string{"pkg/mpc/sharing/"}}})
	register(&propSpec{ID: "C08", SeqScope: Scope{Include: []string{"pkg/proofs/"}}, MinSeq: 100, StoreScope: Scope{Include: []string{"pkg/proofs/"}}, MinStores: 3, FrameScope: Scope{Include: []string{"pkg/proofs/"}}, MinFrame: 8, MinFuncs: 100, Check: checkC08,
		Scope: Scope{Include: []string{"pkg/proofs/"}}})
	register(&propSpec{ID: "C09", SeqScope: Scope{Include: []string{"pkg/ot/", "pkg/mpc/rvole/"}}, MinSeq: 30, StoreScope: Scope{Include: []string{"pkg/ot/", "pkg/mpc/rvole/"}}, MinStores: 5, FrameScope: Scope{Include: []string{"pkg/ot/", "pkg/mpc/rvole/"}}, MinFrame: 4, MinFuncs: 30, Check: checkC09,
		Scope: Scope{Include: []string{"pkg/ot/", "pkg/mpc/rvole/"}}})
	register(&propSpec{ID: "C10", SeqScope: Scope{Include: []string{"pkg/mpc/session/", "pkg/mpc/zero/przs/", "pkg/commitments/hashcom/"}}, MinSeq: 10, StoreScope: Scope{Include: []string{"pkg/mpc/session/"}}, MinStores: 3, FrameScope: Scope{Include: []string{"pkg/mpc/session/", "pkg/mpc/zero/przs/", "pkg/commitments/hashcom/"}}, MinFrame: 3, MinFuncs: 10, Check: checkC10,
		Scope: Scope{Include: []string{"pkg/mpc/session/", "pkg/mpc/zero/przs/", "pkg/commitments/hashcom/"}}})
	register(&propSpec{ID: "C11", SeqScope: Scope{Include: []string{"pkg/"}, KeyRe: regexp.MustCompile(`\.Run$|^pkg/network/exchange\.|^pkg/network/echo\.|^pkg/network\.(Send|Receive)`)}, MinSeq: 12, StoreScope: Scope{Include: []string{"pkg/network/"}}, MinStores: 1, MinFuncs: 20, Check: checkC11,
		Scope: Scope{Include: []string{"pkg/network/"}}})
	register(&propSpec{ID: "C12", Extra: []extraScope{{"ctors", Scope{Include: []string{"pkg/base/nt/znstar/", "pkg/base/nt/num/"}, KeyRe: regexp.MustCompile(`\.New[A-Z]\w*$|\.From\w+$`)}, 10}}, MinFuncs: 100, Check: checkC12,
		Scope: Scope{Include: []string{"pkg/"}, KeyRe: regexp.MustCompile(`\.UnmarshalCBOR$|^pkg/base/serde\.`)}})
	register(&propSpec{ID: "C13", SeqScope: Scope{Include: []string{"pkg/base/curves/"}, Exclude: []string{"pkg/base/curves/impl/rfc9380/"}}, MinSeq: 40, MinFuncs: 60, Check: checkC13,
		Scope: Scope{Include: []string{"pkg/base/curves/"}, Exclude: []string{"pkg/base/curves/impl/rfc9380/"}}})
	register(&propSpec{ID: "C15", Extra: []extraScope{{"hashing", Scope{Include: []string{"pkg/hashing/"}}, 4}}, SeqScope: Scope{Include: []string{"pkg/signatures/"}}, MinSeq: 60, MinFuncs: 30, Check: checkC15,
		Scope: Scope{Include: []string{"pkg/signatures/"}}})
	register(&propSpec{ID: "C16", Extra: []extraScope{{"arith", Scope{Include: []string{"pkg/base/nt/modular/", "pkg/base/nt/crt/"}}, 8}}, SeqScope: Scope{Include: []string{"pkg/encryption/"}}, MinSeq: 40, MinFuncs: 20, Check: checkC16,
		Scope: Scope{Include: []string{"pkg/encryption/", "pkg/base/nt/znstar/"}}})
	register(&propSpec{ID: "C17", SeqScope: Scope{Include: []string{"pkg/base/nt/"}}, MinSeq: 100, MinFuncs: 40, Check: checkC17,
		Scope: Scope{Include: []string{"pkg/base/nt/"}}})
	register(&propSpec{ID: "C18", SeqScope: Scope{Include: []string{"pkg/commitments/"}}, MinSeq: 40, FrameScope: Scope{Include: []string{"pkg/commitments/"}}, MinFrame: 2, MinFuncs: 20, Check: checkC18,
		Scope: Scope{Include: []string{"pkg/commitments/", "pkg/encryption/", "pkg/base/nt/znstar/"}}})
	register(&propSpec{ID: "C19", Extra: []extraScope{{"h2c", Scope{Include: []string{"pkg/base/curves/"}, Exclude: []string{"pkg/base/curves/impl/rfc9380/"}, KeyRe: regexp.MustCompile(`Hash|Encode|ClearCofactor|SetRandom|Map`)}, 20}}, SeqScope: Scope{Include: []string{"pkg/base/curves/impl/points/", "pkg/base/curves/impl/rfc9380/", "pkg/transcripts/"}}, MinSeq: 20, FrameScope: Scope{Include: []string{"pkg/transcripts/", "pkg/hashing/", "pkg/base/curves/impl/rfc9380/"}}, MinFrame: 3, MinFuncs: 15, Check: checkC19,
		Scope: Scope{Include: []string{"pkg/transcripts/", "pkg/base/curves/impl/rfc9380/", "pkg/hashing/"}}})
}

func genericGuards(r *Run) {
	spec := props[r.Prop]
	if len(spec.Scope.Include) == 0 {
		return
	}
	r.CheckGuardInventory(r.Prop+".G1", r.Prop+"_guards.json", spec.Scope, spec.MinFuncs)
	r.CheckNoNewFilter(r.Prop+".G5", r.Prop+"_guards.json", spec.Scope)
	if r.Prop != "C12" {
		r.CheckCondInventory(r.Prop+".K1", r.Prop+"_conds.json", spec.Scope, spec.MinFuncs/2)
	}
	for _, x := range spec.Extra {
		r.CheckGuardInventory(r.Prop+".G1", r.Prop+"_"+x.Name+"_guards.json", x.Scope, x.Min)
		r.CheckNoNewFilter(r.Prop+".G5", r.Prop+"_"+x.Name+"_guards.json", x.Scope)
		r.CheckCondInventory(r.Prop+".K1", r.Prop+"_"+x.Name+"_conds.json", x.Scope, x.Min/2)
		r.CheckCallSeq(r.Prop+".Q1", r.Prop+"_"+x.Name+"_calls.json", x.Scope, x.Min/2, false)
	}
	if len(spec.SeqScope.Include) > 0 {
		r.CheckCallSeq(r.Prop+".Q1", r.Prop+"_calls.json", spec.SeqScope, spec.MinSeq, false)
	}
	if len(spec.StoreScope.Include) > 0 {
		r.CheckStoreGuards(r.Prop+".V1", r.Prop+"_stores.json", spec.StoreScope, spec.MinStores)
	}
	if len(spec.FrameScope.Include) > 0 {
		r.CheckFrame(r.Prop+".F1", r.Prop+"_frame.json", spec.FrameScope, spec.MinFrame)
	}
	if r.Prop != "C11" { // pkg/network has no counted loop (it ranges over maps and channels only)
		r.CheckLoopBounds(r.Prop+".G6", r.Prop+"_loops.json", loopScopes(spec), 1)
	}
	r.CheckSelfComparison(r.Prop+".G9", spec.Scope)
	r.CheckIgnoredTry(r.Prop+".G7", spec.Scope)
	if r.Prop != "C11" {
		checkLoopFlags(r, r.Prop+".G8", spec.Scope)
	}
}

var c02Admission = Scope{Include: []string{"pkg/mpc/"}, Exclude: []string{"pkg/mpc/sharing/"},
	AtomRe: regexp.MustCompile(`msp\.\(\*MSP\)\.Accepts|\.IsQualified|\.CanReconstruct`)}

func checkC02(r *Run) {
	genericGuards(r)
	// quorum admission in protocols: every constructor/aggregator that tests the key's MSP against the
	// quorum keeps that test, on every path, with the same operands (discovered by the atom, not by name)
	r.CheckGuardInventory("C02.A1", "C02_admission_guards.json", c02Admission, 12)
	r.CheckOperandImmutability("C02.I1", Scope{Include: []string{"pkg/mpc/sharing/"}}, 20)
}
func checkC04(r *Run) {
	genericGuards(r)
	checkBlame(r, protoScope, 95)
	checkBytesCoverage(r, "C04.T2", protoScope, 2)
	checkSentinelErrors(r, "C04.B5")
	checkValidateBeforeUse(r, Scope{Include: []string{"pkg/mpc/", "pkg/ot/", "pkg/network/echo/"}, Exclude: []string{"pkg/mpc/sharing/"}}, 60)
}
func checkC05(r *Run) {
	genericGuards(r)
	r.CheckOperandImmutability("C05.I1", Scope{Include: []string{"pkg/mpc/sharing/", "pkg/base/mat/", "pkg/commitments/"}}, 30)
}
func checkC06(r *Run) { genericGuards(r) }
func checkC08(r *Run) {
	genericGuards(r)
	checkBytesCoverage(r, "C08.T1", Scope{Include: []string{"pkg/proofs/"}}, 40)
}
func checkC09(r *Run) { genericGuards(r) }
func checkC10(r *Run) {
	genericGuards(r)
	checkBlameP(r, "C10", Scope{Include: []string{"pkg/mpc/session/"}}, 2)
	checkSentinelErrors(r, "C10.B5")
}
func checkC15(r *Run) {
	genericGuards(r)
	r.CheckSelectorDisjoint("C15.S1", Scope{Include: []string{"pkg/signatures/"}}, 2)
}
func checkC16(r *Run) { genericGuards(r) }
func checkC17(r *Run) {
	genericGuards(r)
	r.CheckOkFlags("C17.O1", Scope{Include: []string{"pkg/base/nt/", "pkg/encryption/", "pkg/proofs/", "pkg/commitments/"}}, okFlagExempt, 50)
}

// each entry confirmed by reading the site: the dominating fact that makes the flag constant, or the API that has no way to report it
var okFlagExempt = map[string]string{
	"pkg/base/nt/modular.(*OddPrimeFactors).ModExpI -> pkg/base/nt/modular.(*OddPrimeFactors).ModInv":             "ModExpI has no failure result by API; the inverse is only selected (CondAssign) for negative exponents, callers pass units (recorded as the tree's behaviour, not judged)",
	"pkg/base/nt/modular.(*OddPrimeSquareFactors).ModExpI -> pkg/base/nt/modular.(*OddPrimeSquareFactors).ModInv": "same as OddPrimeFactors.ModExpI",
	"pkg/base/nt/num.(*Uint).TryInv -> pkg/base/nt/numct.(*ModulusBasic).ModInv":                                  "dominated by the u.IsUnit() failure guard: the inverse exists",
	"pkg/base/nt/numct.(*Int).DivVarTime -> pkg/base/nt/numct.(*Nat).EuclideanDivVarTime":                         "explicit discard; quotient/remainder sign handling follows, divisor validity is the caller's contract in this var-time helper",
	"pkg/base/nt/numct.(*Nat).SetRandomRangeH -> pkg/base/nt/numct.(*Nat).SetBytes":                               "Nat.SetBytes of a freshly read buffer cannot fail (any byte string is a natural)",
	"pkg/base/nt/numct.LCM -> pkg/base/nt/numct.(*Nat).EuclideanDivVarTime":                                       "gcd of two non-zero values is non-zero (zero operands return earlier); the remainder is checked right after",
	"pkg/base/nt/numct.LCM -> pkg/base/nt/numct.NewModulus":                                                       "gcd of two non-zero values is non-zero, NewModulus cannot fail",
	"pkg/base/nt/numct.NewIntFromBytes -> pkg/base/nt/numct.(*Int).SetBytes":                                      "Int.SetBytes of an arbitrary byte string cannot fail",
	"pkg/proofs/paillier/lp.(*Prover).Round4 -> pkg/base/nt/numct.(*ModulusBasic).ModInv":                         "N is coprime to phi(N) for a valid Paillier key held by the prover (own secret key)",
	"pkg/proofs/paillier/lpdl.initRangeProtocol -> pkg/base/nt/numct.(*Nat).EuclideanDivVarTime":                  "division by the constant 3",
}

func checkC18(r *Run) { genericGuards(r) }
func checkC19(r *Run) { genericGuards(r) }
