package main

// Engine L: lock discipline of mutex-guarded structs (go/cfg forward dataflow, AST events).

import (
	"fmt"
	"go/ast"
	"go/constant"
	"go/token"
	"go/types"
	"sort"
	"strings"

	"golang.org/x/tools/go/cfg"
	"golang.org/x/tools/go/types/typeutil"
)

type lockState int

const (
	lsUnlocked lockState = iota
	lsLocked
	lsConflict
	lsUnknown
)

func (s lockState) String() string {
	return [...]string{"unlocked", "locked", "locked-on-some-paths", "unreached"}[s]
}

func joinLock(a, b lockState) lockState {
	if a == lsUnknown {
		return b
	}
	if b == lsUnknown {
		return a
	}
	if a == b {
		return a
	}
	return lsConflict
}

type lockEvent struct {
	kind  string // "access", "block", "call", "lock", "unlock", "store", "exit"
	node  ast.Node
	state lockState
	field *types.Var  // for access/store
	fn    *types.Func // for call
	what  string
	write bool
}

type lockUnit struct {
	fd     *FuncDecl
	lit    *ast.FuncLit
	body   *ast.BlockStmt
	g      *cfg.CFG
	in     map[*cfg.Block]lockState
	events []lockEvent
	deferU bool // `defer mu.Unlock()` seen
	locks  bool // contains mu.Lock()
	exits  []lockEvent
}

type LockAnalysis struct {
	r        *Run
	pkgPath  string
	mutex    *types.Var
	owner    *types.Named
	guarded  map[*types.Var]string // field -> reason
	funcs    []*FuncDecl
	units    map[*FuncDecl]*lockUnit
	litUnits map[*ast.FuncLit]*lockUnit
	requires map[*types.Func]bool
	mayBlock map[*types.Func]string
	mayLock  map[*types.Func]bool
	mutated  map[*types.Var]bool // guarded fields assigned outside composite literals
}

func isMutexType(t types.Type) bool {
	n, ok := t.(*types.Named)
	return ok && n.Obj().Pkg() != nil && n.Obj().Pkg().Path() == "sync" && (n.Obj().Name() == "Mutex" || n.Obj().Name() == "RWMutex")
}

// NewLockAnalysis discovers the mutex and its guarded fields in the package at pkgRel.
func NewLockAnalysis(r *Run, pkgRel string) *LockAnalysis {
	la := &LockAnalysis{r: r, pkgPath: modPath + "/" + pkgRel, guarded: map[*types.Var]string{}, units: map[*FuncDecl]*lockUnit{},
		litUnits: map[*ast.FuncLit]*lockUnit{}, requires: map[*types.Func]bool{}, mayBlock: map[*types.Func]string{}, mayLock: map[*types.Func]bool{}}
	pk := r.Prog.ByID[la.pkgPath]
	if pk == nil {
		return nil
	}
	scope := pk.Types.Scope()
	for _, name := range scope.Names() {
		tn, ok := scope.Lookup(name).(*types.TypeName)
		if !ok {
			continue
		}
		named, ok := tn.Type().(*types.Named)
		if !ok {
			continue
		}
		st, ok := named.Underlying().(*types.Struct)
		if !ok {
			continue
		}
		mi := -1
		for i := 0; i < st.NumFields(); i++ {
			if isMutexType(st.Field(i).Type()) {
				mi = i
				break
			}
		}
		if mi < 0 {
			continue
		}
		la.mutex = st.Field(mi)
		la.owner = named
		for i := mi + 1; i < st.NumFields(); i++ {
			la.guarded[st.Field(i)] = "declared after " + named.Obj().Name() + "." + la.mutex.Name()
			la.addElemStruct(st.Field(i).Type(), named.Obj().Name()+"."+st.Field(i).Name(), pk.Types)
		}
	}
	for _, fd := range r.Prog.Funcs {
		if fd.Pkg == pk {
			la.funcs = append(la.funcs, fd)
		}
	}
	sort.Slice(la.funcs, func(i, j int) bool { return la.funcs[i].Decl.Pos() < la.funcs[j].Decl.Pos() })
	return la
}

// addElemStruct: a struct of the same package stored (by pointer or value) in a guarded container is guarded too.
func (la *LockAnalysis) addElemStruct(t types.Type, via string, pkg *types.Package) {
	for i := 0; i < 4; i++ {
		switch x := t.(type) {
		case *types.Map:
			t = x.Elem()
		case *types.Slice:
			t = x.Elem()
		case *types.Pointer:
			t = x.Elem()
		case *types.Named:
			if x.Obj().Pkg() != pkg {
				return
			}
			st, ok := x.Underlying().(*types.Struct)
			if !ok {
				return
			}
			for j := 0; j < st.NumFields(); j++ {
				la.guarded[st.Field(j)] = "element of guarded container " + via
			}
			return
		default:
			return
		}
	}
}

func (la *LockAnalysis) isMutexSel(info *types.Info, e ast.Expr) bool {
	sel, ok := ast.Unparen(e).(*ast.SelectorExpr)
	if !ok {
		return false
	}
	return info.Uses[sel.Sel] == la.mutex
}

// mutexCall classifies X.mu.Lock()/Unlock().
func (la *LockAnalysis) mutexCall(info *types.Info, call *ast.CallExpr) string {
	sel, ok := ast.Unparen(call.Fun).(*ast.SelectorExpr)
	if !ok || !la.isMutexSel(info, sel.X) {
		return ""
	}
	return sel.Sel.Name
}

func isChanType(t types.Type) bool {
	if t == nil {
		return false
	}
	_, ok := t.Underlying().(*types.Chan)
	return ok
}

// blockingCallee names calls that may block indefinitely.
func (la *LockAnalysis) blockingCallee(info *types.Info, call *ast.CallExpr) string {
	obj, _ := typeutil.Callee(info, call).(*types.Func)
	if obj == nil {
		return ""
	}
	sig := obj.Type().(*types.Signature)
	if sig.Recv() != nil {
		rt := sig.Recv().Type()
		if p, ok := rt.(*types.Pointer); ok {
			rt = p.Elem()
		}
		if n, ok := rt.(*types.Named); ok {
			full := ""
			if n.Obj().Pkg() != nil {
				full = n.Obj().Pkg().Path() + "." + n.Obj().Name()
			}
			switch {
			case full == "sync.WaitGroup" && obj.Name() == "Wait", full == "sync.Cond" && obj.Name() == "Wait":
				return full + "." + obj.Name()
			case full == la.pkgPath+".Delivery" && (obj.Name() == "Send" || obj.Name() == "Receive"):
				return "Delivery." + obj.Name()
			case full == "golang.org/x/sync/errgroup.Group" && obj.Name() == "Wait":
				return "errgroup.Wait"
			}
		}
	} else if obj.Pkg() != nil && obj.Pkg().Path() == "time" && obj.Name() == "Sleep" {
		return "time.Sleep"
	}
	return ""
}

func (la *LockAnalysis) analyse() {
	// pass 0: syntactic summaries (locks / may block)
	for _, fd := range la.funcs {
		info := fd.Pkg.TypesInfo
		ast.Inspect(fd.Decl.Body, func(n ast.Node) bool {
			switch x := n.(type) {
			case *ast.FuncLit:
				// `go func(){...}` bodies do not block the caller
				return true
			case *ast.CallExpr:
				if la.mutexCall(info, x) == "Lock" {
					la.mayLock[fd.Obj] = true
				}
				if b := la.blockingCallee(info, x); b != "" {
					la.mayBlock[fd.Obj] = b
				}
			case *ast.SelectStmt:
				if !selectHasDefault(x) {
					la.mayBlock[fd.Obj] = "select without default"
				}
			case *ast.UnaryExpr:
				if x.Op == token.ARROW && !inNonBlockingSelect(fd.Decl.Body, x) {
					la.mayBlock[fd.Obj] = "channel receive"
				}
			case *ast.SendStmt:
				if !inNonBlockingSelect(fd.Decl.Body, x) {
					la.mayBlock[fd.Obj] = "channel send"
				}
			}
			return true
		})
	}
	// propagate through in-package static calls
	for changed := true; changed; {
		changed = false
		for _, fd := range la.funcs {
			info := fd.Pkg.TypesInfo
			ast.Inspect(fd.Decl.Body, func(n ast.Node) bool {
				if gs, ok := n.(*ast.GoStmt); ok {
					_ = gs
					return false // goroutine bodies run elsewhere
				}
				call, ok := n.(*ast.CallExpr)
				if !ok {
					return true
				}
				f := typeutil.StaticCallee(info, call)
				if f == nil {
					return true
				}
				f = f.Origin()
				if la.mayLock[f] && !la.mayLock[fd.Obj] {
					la.mayLock[fd.Obj] = true
					changed = true
				}
				if b := la.mayBlock[f]; b != "" && la.mayBlock[fd.Obj] == "" {
					la.mayBlock[fd.Obj] = "calls " + f.Name() + " (" + b + ")"
					changed = true
				}
				return true
			})
		}
	}
	la.mutated = map[*types.Var]bool{}
	for _, fd := range la.funcs {
		info := fd.Pkg.TypesInfo
		ast.Inspect(fd.Decl.Body, func(n ast.Node) bool {
			for _, f := range storedFields(info, n) {
				la.mutated[f] = true
			}
			return true
		})
	}
	// requires-lock candidates: access guarded fields, never lock themselves, are methods/functions of the package
	for _, fd := range la.funcs {
		if la.mayLock[fd.Obj] {
			continue
		}
		info := fd.Pkg.TypesInfo
		acc := false
		ast.Inspect(fd.Decl.Body, func(n ast.Node) bool {
			if sel, ok := n.(*ast.SelectorExpr); ok {
				if v, ok := info.Uses[sel.Sel].(*types.Var); ok && la.guarded[v] != "" {
					acc = true
				}
			}
			return true
		})
		if acc {
			la.requires[fd.Obj] = true
		}
	}
	for _, fd := range la.funcs {
		entry := lsUnlocked
		if la.requires[fd.Obj] {
			entry = lsLocked
		}
		la.units[fd] = la.runUnit(fd, nil, fd.Decl.Body, entry)
	}
}

func selectHasDefault(s *ast.SelectStmt) bool {
	for _, c := range s.Body.List {
		if cc, ok := c.(*ast.CommClause); ok && cc.Comm == nil {
			return true
		}
	}
	return false
}

// inNonBlockingSelect: the channel operation is the Comm of a select clause (the select rule covers
// blocking selects; selects with default never block).
func inNonBlockingSelect(body *ast.BlockStmt, op ast.Node) bool {
	res := false
	ast.Inspect(body, func(n ast.Node) bool {
		s, ok := n.(*ast.SelectStmt)
		if !ok {
			return true
		}
		for _, c := range s.Body.List {
			cc := c.(*ast.CommClause)
			if cc.Comm != nil && cc.Comm.Pos() <= op.Pos() && op.End() <= cc.Comm.End() {
				res = true
			}
		}
		return true
	})
	return res
}

func (la *LockAnalysis) runUnit(fd *FuncDecl, lit *ast.FuncLit, body *ast.BlockStmt, entry lockState) *lockUnit {
	info := fd.Pkg.TypesInfo
	u := &lockUnit{fd: fd, lit: lit, body: body, in: map[*cfg.Block]lockState{}}
	u.g = cfg.New(body, func(c *ast.CallExpr) bool { return !isPanicCall(info, c) })
	for _, b := range u.g.Blocks {
		u.in[b] = lsUnknown
	}
	if len(u.g.Blocks) == 0 {
		return u
	}
	u.in[u.g.Blocks[0]] = entry
	out := map[*cfg.Block]lockState{}
	transfer := func(b *cfg.Block, st lockState, record bool) lockState {
		for _, n := range b.Nodes {
			st = la.walkNode(u, info, n, st, record)
		}
		return st
	}
	for changed := true; changed; {
		changed = false
		for _, b := range u.g.Blocks {
			if !b.Live || u.in[b] == lsUnknown {
				continue
			}
			o := transfer(b, u.in[b], false)
			if prev, ok := out[b]; !ok || prev != o {
				out[b] = o
				changed = true
			}
			for _, s := range b.Succs {
				j := joinLock(u.in[s], o)
				if j != u.in[s] {
					u.in[s] = j
					changed = true
				}
			}
		}
	}
	// record events with final states
	for _, b := range u.g.Blocks {
		if !b.Live || u.in[b] == lsUnknown {
			continue
		}
		st := transfer(b, u.in[b], true)
		if len(b.Succs) == 0 {
			var n ast.Node = body
			if len(b.Nodes) > 0 {
				n = b.Nodes[len(b.Nodes)-1]
			}
			isPanic := false
			if es, ok := n.(*ast.ExprStmt); ok {
				if c, ok := es.X.(*ast.CallExpr); ok && isPanicCall(info, c) {
					isPanic = true
				}
			}
			if !isPanic {
				u.exits = append(u.exits, lockEvent{kind: "exit", node: n, state: st})
			}
		}
		// blocking select: state at entry of its case bodies
		if b.Kind == cfg.KindSelectCaseBody {
			if cc, ok := b.Stmt.(*ast.CommClause); ok {
				_ = cc
			}
		}
	}
	// select statements: find state at the block that precedes the case bodies
	ast.Inspect(body, func(n ast.Node) bool {
		if l, ok := n.(*ast.FuncLit); ok && l != lit {
			return false
		}
		s, ok := n.(*ast.SelectStmt)
		if !ok || selectHasDefault(s) {
			return true
		}
		st := lsUnknown
		for _, b := range u.g.Blocks {
			if b.Kind == cfg.KindSelectCaseBody && b.Live {
				if cc, ok := b.Stmt.(*ast.CommClause); ok && cc.Pos() >= s.Pos() && cc.End() <= s.End() {
					st = joinLock(st, u.in[b])
				}
			}
		}
		u.events = append(u.events, lockEvent{kind: "block", node: s, state: st, what: "select without default"})
		return true
	})
	// nested literals
	ast.Inspect(body, func(n ast.Node) bool {
		l, ok := n.(*ast.FuncLit)
		if !ok || l == lit {
			return true
		}
		entry := lsUnlocked
		if isDeferredLit(body, l) {
			// runs at function exit: state of the exits
			es := lsUnknown
			for _, e := range u.exits {
				s := e.state
				if u.deferU && s == lsLocked {
					// deferred Unlock registered earlier runs after this literal only if registered before it;
					// conservative: keep locked
				}
				es = joinLock(es, s)
			}
			if es != lsUnknown {
				entry = es
			}
		}
		la.litUnits[l] = la.runUnit(fd, l, l.Body, entry)
		return false
	})
	return u
}

func isDeferredLit(body *ast.BlockStmt, l *ast.FuncLit) bool {
	res := false
	ast.Inspect(body, func(n ast.Node) bool {
		if d, ok := n.(*ast.DeferStmt); ok && ast.Unparen(d.Call.Fun) == ast.Expr(l) {
			res = true
		}
		return true
	})
	return res
}

// walkNode applies the effects of one CFG node in evaluation order.
func (la *LockAnalysis) walkNode(u *lockUnit, info *types.Info, n ast.Node, st lockState, record bool) lockState {
	add := func(e lockEvent) {
		if record {
			u.events = append(u.events, e)
		}
	}
	if d, ok := n.(*ast.DeferStmt); ok {
		if la.mutexCall(info, d.Call) == "Unlock" {
			u.deferU = true
			return st
		}
		// other deferred calls run at exit; literals are analysed separately
		return st
	}
	if _, ok := n.(*ast.GoStmt); ok {
		return st
	}
	var writes = map[ast.Expr]bool{}
	switch s := n.(type) {
	case *ast.AssignStmt:
		for _, l := range s.Lhs {
			writes[baseSelector(l)] = true
		}
	case *ast.IncDecStmt:
		writes[baseSelector(s.X)] = true
	}
	ast.Inspect(n, func(x ast.Node) bool {
		switch e := x.(type) {
		case *ast.FuncLit:
			return false
		case *ast.CallExpr:
			switch la.mutexCall(info, e) {
			case "Lock", "RLock":
				u.locks = true
				add(lockEvent{kind: "lock", node: e, state: st})
				st = lsLocked
				return false
			case "Unlock", "RUnlock":
				add(lockEvent{kind: "unlock", node: e, state: st})
				st = lsUnlocked
				return false
			}
			if id, ok := ast.Unparen(e.Fun).(*ast.Ident); ok {
				if b, ok := info.Uses[id].(*types.Builtin); ok && b.Name() == "delete" && len(e.Args) > 0 {
					writes[baseSelector(e.Args[0])] = true
				}
			}
			if b := la.blockingCallee(info, e); b != "" {
				add(lockEvent{kind: "block", node: e, state: st, what: b})
			}
			if f := typeutil.StaticCallee(info, e); f != nil && f.Pkg() != nil && f.Pkg().Path() == la.pkgPath {
				add(lockEvent{kind: "call", node: e, state: st, fn: f.Origin()})
			}
		case *ast.UnaryExpr:
			if e.Op == token.ARROW && !inNonBlockingSelect(u.body, e) {
				add(lockEvent{kind: "block", node: e, state: st, what: "channel receive"})
			}
		case *ast.SendStmt:
			if !inNonBlockingSelect(u.body, e) {
				add(lockEvent{kind: "block", node: e, state: st, what: "channel send"})
			}
		case *ast.SelectorExpr:
			if v, ok := info.Uses[e.Sel].(*types.Var); ok && la.guarded[v] != "" {
				add(lockEvent{kind: "access", node: e, state: st, field: v, write: writes[e]})
			}
		}
		return true
	})
	return st
}

// baseSelector strips index/star/paren down to the selector being written.
func baseSelector(e ast.Expr) ast.Expr {
	for {
		switch x := ast.Unparen(e).(type) {
		case *ast.IndexExpr:
			e = x.X
		case *ast.StarExpr:
			e = x.X
		default:
			return ast.Unparen(e)
		}
	}
}

func (la *LockAnalysis) allUnits() []*lockUnit {
	var out []*lockUnit
	for _, fd := range la.funcs {
		if u := la.units[fd]; u != nil {
			out = append(out, u)
		}
	}
	lits := []*ast.FuncLit{}
	for l := range la.litUnits {
		lits = append(lits, l)
	}
	sort.Slice(lits, func(i, j int) bool { return lits[i].Pos() < lits[j].Pos() })
	for _, l := range lits {
		out = append(out, la.litUnits[l])
	}
	return out
}

func (la *LockAnalysis) unitName(u *lockUnit) string {
	s := FuncKey(u.fd.Obj)
	if u.lit != nil {
		s += "$lit"
	}
	return s
}

// Report evaluates L1–L3.
func (la *LockAnalysis) Report(prefix string) {
	r := la.r
	p := r.Prog
	r.Rule(prefix+".L1", "guarded-by: every read/write of a field declared after the mutex (and of structs stored in guarded containers) happens with the mutex in the must-lockset; lock-requiring helpers are verified at each call site")
	r.Rule(prefix+".L2", "lock pairing: no path re-locks a held mutex or unlocks a free one, every exit releases the mutex (directly or by defer), helpers that need the lock are never called without it")
	r.Rule(prefix+".L3", "no blocking while locked: no channel operation without default, blocking select, Delivery.Send/Receive, WaitGroup.Wait or call to a function that may block or re-lock occurs with the mutex held")
	nAcc, nBlock, nExit, nCall := 0, 0, 0, 0
	for _, u := range la.allUnits() {
		name := la.unitName(u)
		for _, e := range u.events {
			pos := p.RelPos(e.node.Pos())
			switch e.kind {
			case "access":
				if !la.mutated[e.field] {
					// never assigned after construction (only set in a composite literal): immutable, no lock needed
					continue
				}
				nAcc++
				// composite-literal initialisation is not a SelectorExpr; constructor accesses before publication do not occur
				r.Check(e.state == lsLocked, prefix+".L1", name+" :: "+e.field.Name(), pos, fmt.Sprintf("access to guarded field %s (%s) with mutex %s", e.field.Name(), la.guarded[e.field], e.state))
			case "lock":
				r.Check(e.state == lsUnlocked, prefix+".L2", name+" :: Lock", pos, "Lock() reached with mutex "+e.state.String())
			case "unlock":
				r.Check(e.state == lsLocked, prefix+".L2", name+" :: Unlock", pos, "Unlock() reached with mutex "+e.state.String())
			case "block":
				nBlock++
				r.Check(e.state == lsUnlocked, prefix+".L3", name+" :: "+e.what, pos, "blocking operation ("+e.what+") with mutex "+e.state.String())
			case "call":
				nCall++
				if la.requires[e.fn] {
					r.Check(e.state == lsLocked, prefix+".L2", name+" :: call "+e.fn.Name(), pos, "call of lock-requiring helper "+e.fn.Name()+" with mutex "+e.state.String())
				} else if la.mayLock[e.fn] {
					r.Check(e.state == lsUnlocked, prefix+".L2", name+" :: call "+e.fn.Name(), pos, "call of "+e.fn.Name()+" (which locks the mutex) with mutex "+e.state.String())
				}
				if b := la.mayBlock[e.fn]; b != "" && !la.requires[e.fn] {
					r.Check(e.state == lsUnlocked, prefix+".L3", name+" :: call "+e.fn.Name(), pos, "call of "+e.fn.Name()+" which may block ("+b+") with mutex "+e.state.String())
				}
			}
		}
		for _, e := range u.exits {
			nExit++
			want := lsUnlocked
			if u.lit == nil && la.requires[u.fd.Obj] {
				want = lsLocked
			}
			ok := e.state == want || (e.state == lsLocked && u.deferU)
			r.Check(ok, prefix+".L2", name+" :: exit", p.RelPos(e.node.Pos()), "function exit with mutex "+e.state.String())
		}
	}
	r.Analysed[prefix+".L guarded fields"] = len(la.guarded)
	r.Analysed[prefix+".L guarded accesses"] = nAcc
	r.Analysed[prefix+".L blocking sites"] = nBlock
	r.Analysed[prefix+".L exits"] = nExit
	r.Analysed[prefix+".L in-package calls"] = nCall
	req := []string{}
	for f := range la.requires {
		req = append(req, f.Name())
	}
	sort.Strings(req)
	r.Notes = append(r.Notes, "lock-requiring helpers derived: "+strings.Join(req, ", "))
	r.RequireCount(prefix+".L1", "guarded accesses", nAcc, 25)
	r.RequireCount(prefix+".L3", "blocking sites", nBlock, 3)
}

// constInt evaluates a constant integer expression.
func constInt(info *types.Info, e ast.Expr) (int64, bool) {
	tv, ok := info.Types[e]
	if !ok || tv.Value == nil {
		return 0, false
	}
	return constant.Int64Val(constant.ToInt(tv.Value))
}
