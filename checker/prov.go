package main

import (
	"go/ast"
	"go/types"
	"sort"
	"strings"

	"golang.org/x/tools/go/types/typeutil"
)

// Engine P: provenance of io.Reader values handed to samplers.

func isIOReader(t types.Type) bool {
	if t == nil {
		return false
	}
	n, ok := types.Unalias(t).(*types.Named)
	return ok && n.Obj().Pkg() != nil && n.Obj().Pkg().Path() == "io" && n.Obj().Name() == "Reader"
}

type ReaderSite struct {
	Fn     *FuncDecl
	Unit   *Unit
	Call   *ast.CallExpr
	Arg    ast.Expr
	ArgIdx int
	Callee string
	Origin string // PARAM, FIELD, AMBIENT, DERIVED:<what>, LOCAL:<shape>
	Shape  string
	Field  *types.Var
}

// classifyReader resolves the origin of an io.Reader-typed expression inside unit u.
func classifyReader(u *Unit, e ast.Expr, at ast.Node, depth int) (origin string, fld *types.Var) {
	e = ast.Unparen(e)
	info := u.Info
	switch x := e.(type) {
	case *ast.Ident:
		switch o := info.Uses[x].(type) {
		case *types.Nil:
			return "AMBIENT:nil", nil
		case *types.Var:
			if o.IsField() {
				return "FIELD", o
			}
			if o.Pkg() != nil && o.Parent() == o.Pkg().Scope() {
				return "AMBIENT:" + o.Pkg().Path() + "." + o.Name(), nil
			}
			if s := u.paramShape(o); s != "" {
				return "PARAM", nil
			}
			// closure capture of an outer parameter
			if u.Lit != nil {
				outer := u.Fn.Obj.Type().(*types.Signature)
				for i := 0; i < outer.Params().Len(); i++ {
					if outer.Params().At(i) == o {
						return "PARAM", nil
					}
				}
			}
			if depth < 4 {
				ds := u.reachingDefs(o, at)
				if len(ds) >= 1 {
					res := ""
					var rf *types.Var
					for _, d := range ds {
						if d.rhs == nil {
							return "LOCAL:uninitialised", nil
						}
						og, f := classifyReader(u, d.rhs, d.node, depth+1)
						if res == "" {
							res, rf = og, f
						} else if res != og {
							// keep the worst
							if strings.HasPrefix(og, "AMBIENT") {
								res = og
							}
						}
					}
					return res, rf
				}
				// captured variable of an enclosing function literal / range var: look at all assignments in the declaration
				var found ast.Expr
				ast.Inspect(u.Fn.Decl.Body, func(n ast.Node) bool {
					if as, ok := n.(*ast.AssignStmt); ok {
						for i, l := range as.Lhs {
							if id := identOf(l); id != nil && (info.Defs[id] == o || info.Uses[id] == o) && i < len(as.Rhs) {
								found = as.Rhs[i]
							}
						}
					}
					return true
				})
				if found != nil {
					return classifyReader(u, found, found, depth+1)
				}
			}
			return "LOCAL:" + u.argShape(e, at, 0), nil
		}
	case *ast.SelectorExpr:
		if o, ok := info.Uses[x.Sel].(*types.Var); ok {
			if o.IsField() {
				return "FIELD", o
			}
			if o.Pkg() != nil && o.Parent() == o.Pkg().Scope() {
				return "AMBIENT:" + o.Pkg().Path() + "." + o.Name(), nil
			}
		}
	case *ast.CallExpr:
		if tv, ok := info.Types[x.Fun]; ok && tv.IsType() && len(x.Args) == 1 {
			return classifyReader(u, x.Args[0], at, depth+1)
		}
		if f, _ := typeutil.Callee(info, x).(*types.Func); f != nil {
			return "DERIVED:" + FuncKey(f), nil
		}
		return "DERIVED:dynamic", nil
	case *ast.UnaryExpr:
		// &someStruct{...} implementing io.Reader
		return "DERIVED:" + u.argShape(x, at, 0), nil
	case *ast.IndexExpr:
		og, f := classifyReader(u, x.X, at, depth+1)
		return og, f
	case *ast.TypeAssertExpr:
		return classifyReader(u, x.X, at, depth+1)
	case *ast.StarExpr:
		return classifyReader(u, x.X, at, depth+1)
	}
	// values of concrete reader types (e.g. *sha3.SHAKE stored in a map)
	return "LOCAL:" + u.argShape(e, at, 0), nil
}

// ReaderSites enumerates every call argument whose parameter type is io.Reader.
func (r *Run) ReaderSites(scope Scope) []*ReaderSite {
	var out []*ReaderSite
	for _, fd := range r.Prog.AllFuncsIn(scope) {
		for _, u := range r.G.unitsOf(fd) {
			info := u.Info
			ast.Inspect(u.Body, func(n ast.Node) bool {
				if lit, ok := n.(*ast.FuncLit); ok && lit != u.Lit {
					return false
				}
				call, ok := n.(*ast.CallExpr)
				if !ok {
					return true
				}
				sig, _ := info.TypeOf(call.Fun).(*types.Signature)
				if sig == nil {
					return true
				}
				for i, a := range call.Args {
					var pt types.Type
					if i < sig.Params().Len() {
						pt = sig.Params().At(i).Type()
					} else if sig.Variadic() && sig.Params().Len() > 0 {
						if sl, ok := sig.Params().At(sig.Params().Len() - 1).Type().(*types.Slice); ok {
							pt = sl.Elem()
						}
					}
					if sig.Variadic() && i == sig.Params().Len()-1 {
						if sl, ok := pt.(*types.Slice); ok && call.Ellipsis == 0 {
							pt = sl.Elem()
						}
					}
					if !isIOReader(pt) {
						continue
					}
					rs := &ReaderSite{Fn: fd, Unit: u, Call: call, Arg: a, ArgIdx: i}
					rs.Callee = u.calleeKey(call)
					rs.Origin, rs.Field = classifyReader(u, a, call, 0)
					rs.Shape = u.argShape(a, call, 0)
					out = append(out, rs)
				}
				return true
			})
		}
	}
	sort.SliceStable(out, func(i, j int) bool { return out[i].Call.Pos() < out[j].Call.Pos() })
	return out
}
