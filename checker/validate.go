package main

import (
	"fmt"
	"go/ast"
	"go/types"
	"strings"

	"golang.org/x/tools/go/types/typeutil"
)

// C04.G0 validate-before-use (type-driven): a parameter that carries peer messages is validated by a
// checked Message.Validate call (directly, through network.ValidateIncomingMessages, or through a
// helper whose summary validates it) before anything else reads it.

func hasValidateMethod(t types.Type) bool {
	if t == nil {
		return false
	}
	ms := types.NewMethodSet(t)
	for i := 0; i < ms.Len(); i++ {
		m := ms.At(i).Obj()
		if m.Name() != "Validate" {
			continue
		}
		sig, ok := m.Type().(*types.Signature)
		if ok && sig.Params().Len() == 2 && sig.Results().Len() == 1 && isErrorType(sig.Results().At(0).Type()) && isSharingID(sig.Params().At(1).Type()) {
			return true
		}
	}
	return false
}

// messageCarrier: the type is a peer message itself, or a map from party id to peer messages.
func messageCarrier(t types.Type) bool {
	t = types.Unalias(t)
	if hasValidateMethod(t) {
		return true
	}
	if n, ok := t.(*types.Named); ok && n.TypeArgs() != nil && n.TypeArgs().Len() == 2 {
		// ds.Map[sharing.ID, M]
		if n.Obj().Name() == "Map" && isSharingID(n.TypeArgs().At(0)) && hasValidateMethod(n.TypeArgs().At(1)) {
			return true
		}
	}
	return false
}

type validateSummary struct {
	r    *Run
	memo map[string]bool
}

// validatesParam: does fd validate its idx-th parameter (checked Validate call on it or on an element of it)?
func (vs *validateSummary) validatesParam(fd *FuncDecl, pv *types.Var, depth int) (*Atom, bool) {
	if depth > 2 {
		return nil, false
	}
	u := vs.r.G.UnitOf(fd)
	for _, un := range vs.r.G.unitsOf(fd) {
		for _, a := range un.Atoms {
			if a.Unit != un {
				continue
			}
			for _, c := range a.Calls {
				f, _ := typeutil.Callee(un.Info, c).(*types.Func)
				if f == nil {
					continue
				}
				if f.Name() == "Validate" {
					if sel, ok := ast.Unparen(c.Fun).(*ast.SelectorExpr); ok && vs.derivesFrom(un, sel.X, pv, c) {
						if un == u {
							return a, true
						}
						return nil, true
					}
				}
				// helper that validates the argument bound to pv
				if InModule(f) {
					hd := vs.r.Prog.Funcs[f.Origin()]
					if hd == nil {
						continue
					}
					for i, arg := range c.Args {
						if !vs.derivesFrom(un, arg, pv, c) {
							continue
						}
						hs := f.Origin().Type().(*types.Signature)
						if i >= hs.Params().Len() {
							continue
						}
						hv := paramVar(hd, i)
						if hv == nil {
							continue
						}
						if _, ok := vs.validatesParam(hd, hv, depth+1); ok {
							if un == u {
								return a, true
							}
							return nil, true
						}
					}
				}
			}
		}
	}
	return nil, false
}

func paramVar(fd *FuncDecl, idx int) *types.Var {
	k := 0
	if fd.Decl.Type.Params == nil {
		return nil
	}
	for _, fl := range fd.Decl.Type.Params.List {
		for _, nm := range fl.Names {
			if k == idx {
				v, _ := fd.Pkg.TypesInfo.Defs[nm].(*types.Var)
				return v
			}
			k++
		}
		if len(fl.Names) == 0 {
			k++
		}
	}
	return nil
}

// derivesFrom: e is pv, or a local obtained from pv by Get / range / field-free projections.
func (vs *validateSummary) derivesFrom(u *Unit, e ast.Expr, pv *types.Var, at ast.Node) bool {
	sh := u.argShape(e, at, 0)
	ps := u.paramShape(pv)
	if ps == "" {
		return false
	}
	return sh == ps || strings.HasPrefix(sh, ps+".Get()") || strings.Contains(sh, "("+ps+")") || strings.HasPrefix(sh, ps+".")
}

func checkValidateBeforeUse(r *Run, scope Scope, min int) {
	r.Rule("C04.G0", "validate before use: every parameter of a protocol function whose type carries peer messages (a Message with Validate(receiver, sender), or a map from party id to such messages) is validated by an effective Message.Validate call – directly, via network.ValidateIncomingMessages or via a helper that validates it – and that check guards every other read of the parameter")
	vs := &validateSummary{r: r, memo: map[string]bool{}}
	n := 0
	for _, fd := range r.Prog.FuncsIn(scope) {
		if fd.Decl.Type.Params == nil {
			continue
		}
		// Validate methods themselves and pure forwarders are not subjects
		if fd.Obj.Name() == "Validate" {
			continue
		}
		sig := fd.Obj.Type().(*types.Signature)
		u := r.G.UnitOf(fd)
		for i := 0; i < sig.Params().Len(); i++ {
			pv := paramVar(fd, i)
			if pv == nil || !messageCarrier(pv.Type()) {
				continue
			}
			// is the parameter inspected at all (method call / field access on it)? pure forwarding is fine
			inspected := false
			var uses []*ast.Ident
			ast.Inspect(fd.Decl.Body, func(nd ast.Node) bool {
				if id, ok := nd.(*ast.Ident); ok && u.Info.Uses[id] == pv {
					uses = append(uses, id)
				}
				if sel, ok := nd.(*ast.SelectorExpr); ok && isVarIdent(u.Info, sel.X, pv) {
					inspected = true
				}
				return true
			})
			if !inspected {
				continue
			}
			key := FuncKey(fd.Obj) + " :: $" + fmt.Sprint(i)
			pos := r.Prog.RelPos(fd.Decl.Pos())
			atom, ok := vs.validatesParam(fd, pv, 0)
			if !ok && (!fd.Obj.Exported() || r.G.isNewFunc(fd.Obj)) && vs.callersValidate(fd, i) {
				n++
				r.Pass("C04.G0", key, pos, "unexported helper: every call site passes an already validated message (or is part of a Validate method)")
				continue
			}
			if !ok {
				if why, ex := validateExempt[FuncKey(fd.Obj)]; ex {
					r.UseExempt("C04.G0 "+FuncKey(fd.Obj), why)
					continue
				}
				n++
				r.Fail("C04.G0", key, pos, "parameter `"+pv.Name()+"` ("+shortType(pv.Type())+") carries peer messages but is never validated (no effective Message.Validate / ValidateIncomingMessages on it)")
				continue
			}
			n++
			if atom == nil {
				r.Pass("C04.G0", key, pos, "validated inside a nested literal")
				continue
			}
			bad := ""
			for _, id := range uses {
				// uses inside the validating call itself are fine
				inCall := false
				for _, c := range atom.Calls {
					if c.Pos() <= id.Pos() && id.End() <= c.End() {
						inCall = true
					}
				}
				if inCall || (atom.Leaf != nil && atom.Leaf.Pos() <= id.Pos() && id.End() <= atom.Leaf.End()) {
					continue
				}
				// the definition chain of the validating call may mention the parameter before the check (x, ok := p.Get(id))
				if id.Pos() < atom.Pos && sameStmtFeeds(u, id, atom) {
					continue
				}
				if !u.Guards(atom, id) {
					bad = r.Prog.RelPos(id.Pos())
					break
				}
			}
			r.Check(bad == "", "C04.G0", key, pos, "validation of `"+pv.Name()+"` guards every other read of it "+bad)
		}
	}
	r.RequireCount("C04.G0", "message-carrying parameters", n, min)
}

// sameStmtFeeds: the use feeds the validated value (e.g. `m, ok := msgs.Get(id)` right before `m.Validate`).
func sameStmtFeeds(u *Unit, id *ast.Ident, a *Atom) bool {
	b1 := u.BlockOf(id)
	return b1 != nil && u.Dominates(b1, a.Block)
}

var validateExempt = map[string]string{}

// callersValidate: every static call of the unexported helper fd passes, at position idx, a value derived
// from a parameter that the caller validates before the call – or the call is made from a Validate method.
func (vs *validateSummary) callersValidate(fd *FuncDecl, idx int) bool {
	sites := 0
	ok := true
	for _, cd := range vs.r.Prog.Funcs {
		if cd.Pkg != fd.Pkg {
			continue
		}
		for _, u := range vs.r.G.unitsOf(cd) {
			ast.Inspect(u.Body, func(n ast.Node) bool {
				if lit, isLit := n.(*ast.FuncLit); isLit && lit != u.Lit {
					return false
				}
				c, isCall := n.(*ast.CallExpr)
				if !isCall {
					return true
				}
				f := typeutil.StaticCallee(u.Info, c)
				if f == nil || f.Origin() != fd.Obj || idx >= len(c.Args) {
					return true
				}
				sites++
				if cd.Obj.Name() == "Validate" || strings.HasPrefix(cd.Obj.Name(), "validate") {
					return true
				}
				// argument derives from a validated parameter of the caller
				csig := cd.Obj.Type().(*types.Signature)
				good := false
				for j := 0; j < csig.Params().Len(); j++ {
					pv := paramVar(cd, j)
					if pv == nil || !messageCarrier(pv.Type()) || !vs.derivesFrom(u, c.Args[idx], pv, c) {
						continue
					}
					if a, v := vs.validatesParam(cd, pv, 0); v && (a == nil || vs.r.G.UnitOf(cd).Guards(a, c)) {
						good = true
					}
				}
				if !good {
					ok = false
				}
				return true
			})
		}
	}
	return ok && sites > 0
}
