package main

// Engine G: guard atoms on AST + go/cfg + go/types (no SSA).
//
// For a function it computes the failure region (blocks from which every path ends in a failure
// exit), the guard atoms (boolean leaves of branch conditions one of whose successors lies in
// the failure region, with the resolved callees whose result feeds the leaf), and for every atom
// whether it is MUST (not control dependent on anything but loops and other guards).

import (
	"fmt"
	"go/ast"
	"go/constant"
	"go/token"
	"go/types"
	"regexp"
	"sort"
	"strings"

	"golang.org/x/tools/go/cfg"
	"golang.org/x/tools/go/types/typeutil"
)

// Atom is one effective guard.
type Atom struct {
	Callees   []string // resolved callee keys whose result feeds the leaf (sorted, deduplicated)
	Shape     string   // normalised shape of the leaf when it is a comparison / plain boolean
	Must      bool
	InLit     bool
	Tail      bool // `return f(...)` – callee's failure is returned unchanged
	Pos       token.Pos
	Leaf      ast.Expr        // the boolean leaf (nil for tail atoms)
	FailTrue  bool            // failure successor is taken when the leaf is true
	Block     *cfg.Block      // block holding the condition
	FailSucc  *cfg.Block      // failure successor
	OkSucc    *cfg.Block      // the other successor
	Unit      *Unit           // analysis unit (function body or literal)
	Calls     []*ast.CallExpr // the call expressions behind Callees (same order not guaranteed)
	Via       string          // non-empty when inherited from an unexported helper
	Conj      string          // shapes of sibling leaves that must hold jointly (conjunctive guard)
	Skip      bool            // `if cond { continue }` filter inside a loop
	ViaTags   []string        // blame tags attached by the caller's guard through which this atom was inherited
	Substs    []paramSubst    // parameter substitutions of the inlining chain (innermost first)
	CtxOuter  string          // condition context of the call site(s) through which this atom was inherited
	Outer     *Atom           // the caller's atom through which this atom was inherited
	ExtraArgs []extraArg      // renderings of call-site calls whose result this (inherited) atom tests
	Wrapper   bool            // the condition of an `if A { <only failing checks> }` / `case c:` wrapper: a conjunct of those checks
	PureSkip  bool            // the filter's branch does nothing but skip the element (`if c { continue }`)
	ShapeP    string          // Shape with the function's parameters kept as ⟦$i|<type>⟧ tokens
	ConjP     string          // Conj likewise
}

// lastInLoopBody: the statement is the last one of the body of a for / range loop.
func (u *Unit) lastInLoopBody(st ast.Stmt) bool {
	res := false
	ast.Inspect(u.Body, func(n ast.Node) bool {
		var body *ast.BlockStmt
		switch l := n.(type) {
		case *ast.ForStmt:
			body = l.Body
		case *ast.RangeStmt:
			body = l.Body
		}
		if body != nil && len(body.List) > 0 && body.List[len(body.List)-1] == st {
			res = true
		}
		return !res
	})
	return res
}

// Sig is the inventory signature (without strength).
func (a *Atom) Sig() string {
	s := ""
	if len(a.Callees) > 0 {
		s = strings.Join(a.Callees, " + ")
		if a.Shape != "" && !strings.HasPrefix(a.Shape, "err") && a.Shape != "call" && a.Shape != "!call" {
			s += " {" + a.Shape + "}"
		}
	} else {
		s = "{" + a.Shape + "}"
	}
	if a.Conj != "" {
		s += " " + a.Conj
	}
	if a.Tail {
		s = "tail " + s
	}
	if a.Skip {
		s = "skip " + s
	}
	return s
}

// Unit is one analysed body: a declared function or a function literal inside one.
type Unit struct {
	earlyWrappers map[*ast.IfStmt]bool      // `if C { return ok }` merged into the checks that follow it
	foldedLits    map[*ast.FuncLit]bool     // predicate literals folded into the leaf of their element-predicate call
	wrapperOfStmt map[ast.Node]*conjWrapper // statement -> the wrapper whose body it belongs to
	wrapperList   []*conjWrapper
	failingIfs    map[*ast.IfStmt]bool
	switchOfCase  map[*ast.CaseClause]*ast.SwitchStmt
	ctxHops       int  // recursion guard for cached conditions in ctxParts
	aliasHops     int  // recursion guard for following plain copies in argShape
	leafMode      bool // shapeOf keeps parameters as ⟦$i|<type>⟧ tokens
	Fn            *FuncDecl
	Lit           *ast.FuncLit // nil for the declaration itself
	Body          *ast.BlockStmt
	Sig           *types.Signature
	CFG           *cfg.CFG
	Info          *types.Info
	FR            map[*cfg.Block]bool // failure region
	Exits         []*Exit
	Atoms         []*Atom
	idom          []int // immediate dominators (by block index), -1 for entry/unreachable
	preds         map[*cfg.Block][]*cfg.Block
	rdIn          map[*cfg.Block]defSet
	nodeBlk       map[ast.Node]*cfg.Block
	prog          *Program
	eng           *GuardEngine
}

type Exit struct {
	Ret     *ast.ReturnStmt // nil for panic exits / fallthrough end
	Block   *cfg.Block
	Failure bool
	Output  bool
	Panic   bool
}

type def struct {
	v    *types.Var
	node ast.Node // AssignStmt / ValueSpec / RangeStmt part / IncDecStmt
	rhs  ast.Expr // may be nil (zero value / range variable / multi-assign from call => rhs is the call)
}
type defSet map[*def]bool

// GuardEngine caches units per function.
type GuardEngine struct {
	known      map[string]bool // function keys present in any frozen reference (nil: unknown)
	helperNest int             // nesting of helperResultShape (recursion guard)
	prog       *Program
	units      map[*FuncDecl]*Unit
	lits       map[*ast.FuncLit]*Unit
	flat       map[*FuncDecl][]*Atom
}

func NewGuardEngine(p *Program) *GuardEngine {
	return &GuardEngine{prog: p, units: map[*FuncDecl]*Unit{}, lits: map[*ast.FuncLit]*Unit{}, flat: map[*FuncDecl][]*Atom{}}
}

func isPanicCall(info *types.Info, call *ast.CallExpr) bool {
	if id, ok := ast.Unparen(call.Fun).(*ast.Ident); ok {
		if b, ok := info.Uses[id].(*types.Builtin); ok && b.Name() == "panic" {
			return true
		}
	}
	if f := typeutil.StaticCallee(info, call); f != nil && f.Pkg() != nil {
		full := f.Pkg().Path() + "." + f.Name()
		switch full {
		case "os.Exit", "log.Fatal", "log.Fatalf", "log.Fatalln", "log.Panic", "log.Panicf":
			return true
		}
	}
	return false
}

// UnitOf analyses the declared function (cached).
func (g *GuardEngine) UnitOf(fd *FuncDecl) *Unit {
	if u, ok := g.units[fd]; ok {
		return u
	}
	sig := fd.Obj.Type().(*types.Signature)
	u := g.newUnit(fd, nil, fd.Decl.Body, sig)
	g.units[fd] = u
	return u
}

func (g *GuardEngine) litUnit(fd *FuncDecl, lit *ast.FuncLit) *Unit {
	if u, ok := g.lits[lit]; ok {
		return u
	}
	sig, _ := fd.Pkg.TypesInfo.TypeOf(lit).(*types.Signature)
	if sig == nil {
		sig = types.NewSignatureType(nil, nil, nil, nil, nil, false)
	}
	u := g.newUnit(fd, lit, lit.Body, sig)
	g.lits[lit] = u
	return u
}

func (g *GuardEngine) newUnit(fd *FuncDecl, lit *ast.FuncLit, body *ast.BlockStmt, sig *types.Signature) *Unit {
	info := fd.Pkg.TypesInfo
	u := &Unit{Fn: fd, Lit: lit, Body: body, Sig: sig, Info: info, prog: g.prog, eng: g}
	u.CFG = cfg.New(body, func(c *ast.CallExpr) bool { return !isPanicCall(info, c) })
	u.preds = map[*cfg.Block][]*cfg.Block{}
	u.nodeBlk = map[ast.Node]*cfg.Block{}
	for _, b := range u.CFG.Blocks {
		for _, s := range b.Succs {
			u.preds[s] = append(u.preds[s], b)
		}
		for _, n := range b.Nodes {
			u.nodeBlk[n] = b
		}
	}
	u.classifyExits()
	u.computeFR()
	u.computeDom()
	u.computeReachingDefs()
	u.extractAtoms(g)
	return u
}

// ---------- exits ----------

func isNilIdent(info *types.Info, e ast.Expr) bool {
	id, ok := ast.Unparen(e).(*ast.Ident)
	if !ok {
		return false
	}
	_, isNil := info.Uses[id].(*types.Nil)
	return isNil
}

func isErrorType(t types.Type) bool {
	if t == nil {
		return false
	}
	n, ok := t.(*types.Named)
	return ok && n.Obj().Pkg() == nil && n.Obj().Name() == "error"
}

func isBoolType(t types.Type) bool {
	b, ok := t.Underlying().(*types.Basic)
	return ok && b.Info()&types.IsBoolean != 0
}

func isCtFlag(t types.Type) bool {
	if a, isAlias := t.(*types.Alias); isAlias && a.Obj().Pkg() != nil && strings.HasSuffix(a.Obj().Pkg().Path(), "/pkg/base/ct") {
		return true
	}
	n, ok := types.Unalias(t).(*types.Named)
	return ok && n.Obj().Pkg() != nil && strings.HasSuffix(n.Obj().Pkg().Path(), "/pkg/base/ct") && (n.Obj().Name() == "Bool" || n.Obj().Name() == "Choice")
}

func constBool(info *types.Info, e ast.Expr) (val, ok bool) {
	tv, has := info.Types[e]
	if !has || tv.Value == nil || tv.Value.Kind() != constant.Bool {
		return false, false
	}
	return constant.BoolVal(tv.Value), true
}

func (u *Unit) classifyExits() {
	res := u.Sig.Results()
	n := res.Len()
	var lastT types.Type
	if n > 0 {
		lastT = res.At(n - 1).Type()
	}
	errLast := n > 0 && isErrorType(lastT)
	boolLast := n > 0 && isBoolType(lastT)
	for _, b := range u.CFG.Blocks {
		if !b.Live {
			continue
		}
		if len(b.Succs) == 0 {
			// return or no-return call
			var ret *ast.ReturnStmt
			if len(b.Nodes) > 0 {
				ret, _ = b.Nodes[len(b.Nodes)-1].(*ast.ReturnStmt)
			}
			ex := &Exit{Ret: ret, Block: b}
			if ret == nil {
				// block ends without return: either panic-like call or function end
				if len(b.Nodes) > 0 {
					if es, ok := b.Nodes[len(b.Nodes)-1].(*ast.ExprStmt); ok {
						if c, ok := es.X.(*ast.CallExpr); ok && isPanicCall(u.Info, c) {
							ex.Panic, ex.Failure = true, true
						}
					}
				}
				if !ex.Panic {
					ex.Output = true
				}
			} else if len(ret.Results) == 0 {
				ex.Output = true
			} else if len(ret.Results) == n {
				last := ret.Results[n-1]
				switch {
				case errLast:
					if isNilIdent(u.Info, last) {
						ex.Output = true
						if n > 1 && isNilIdent(u.Info, ret.Results[0]) {
							// `return nil, nil`: empty exit, still counts as a non-failing exit
							ex.Output = true
						}
					} else if u.isTailCheck(last) {
						// `return v.validateRest()`: succeeds when the callee does (a tail atom is added for it)
						ex.Output = true
					} else {
						ex.Failure = true
					}
				case boolLast:
					if v, ok := constBool(u.Info, last); ok && !v {
						ex.Failure = true
					} else {
						ex.Output = true
					}
				case isCtFlag(lastT):
					// constant-time ok flags: `return 0` / `return ct.False` is the failure exit
					if tv, ok := u.Info.Types[last]; ok && tv.Value != nil && tv.Value.Kind() == constant.Int && constant.Sign(tv.Value) == 0 {
						ex.Failure = true
					} else {
						ex.Output = true
					}
				default:
					ex.Output = true
				}
			} else {
				// return f(...) with multi-value call: tail call; treat as output exit (tail atom added later)
				ex.Output = true
			}
			u.Exits = append(u.Exits, ex)
		}
	}
}

// isTailCheck: the returned error is the result of a call that is not an error constructor
// (errs / errors / fmt functions, `With…` methods on an error value), i.e. a delegated check.
func (u *Unit) isTailCheck(e ast.Expr) bool {
	call, ok := ast.Unparen(e).(*ast.CallExpr)
	if !ok {
		return false
	}
	if tv, ok := u.Info.Types[call.Fun]; ok && tv.IsType() {
		return false
	}
	f, _ := typeutil.Callee(u.Info, call).(*types.Func)
	if f == nil {
		return false
	}
	if f.Pkg() != nil {
		pp := f.Pkg().Path()
		if strings.HasSuffix(pp, "errs-go/errs") || pp == "errors" || pp == "fmt" {
			return false
		}
	}
	if sig, ok := f.Type().(*types.Signature); ok && sig.Recv() != nil {
		if types.Implements(sig.Recv().Type(), errorIface) || types.Implements(types.NewPointer(sig.Recv().Type()), errorIface) {
			return false // a method of an error value builds an error
		}
	}
	return true
}

func (u *Unit) computeFR() {
	u.FR = map[*cfg.Block]bool{}
	for _, e := range u.Exits {
		if e.Failure {
			u.FR[e.Block] = true
		}
	}
	for changed := true; changed; {
		changed = false
		for _, b := range u.CFG.Blocks {
			if !b.Live || u.FR[b] || len(b.Succs) == 0 {
				continue
			}
			all := true
			for _, s := range b.Succs {
				if !u.FR[s] {
					all = false
					break
				}
			}
			if all {
				u.FR[b] = true
				changed = true
			}
		}
	}
}

// ---------- dominators (simple iterative) ----------

func (u *Unit) computeDom() {
	n := len(u.CFG.Blocks)
	u.idom = make([]int, n)
	for i := range u.idom {
		u.idom[i] = -1
	}
	if n == 0 {
		return
	}
	// reverse postorder
	order := []*cfg.Block{}
	seen := make([]bool, n)
	var dfs func(b *cfg.Block)
	dfs = func(b *cfg.Block) {
		seen[b.Index] = true
		for _, s := range b.Succs {
			if !seen[s.Index] {
				dfs(s)
			}
		}
		order = append(order, b)
	}
	dfs(u.CFG.Blocks[0])
	rpo := make([]int, n)
	for i := range rpo {
		rpo[i] = -1
	}
	for i, j := 0, len(order)-1; i < j; i, j = i+1, j-1 {
		order[i], order[j] = order[j], order[i]
	}
	for i, b := range order {
		rpo[b.Index] = i
	}
	entry := u.CFG.Blocks[0]
	u.idom[entry.Index] = int(entry.Index)
	intersect := func(a, b int) int {
		for a != b {
			for rpo[a] > rpo[b] {
				a = u.idom[a]
			}
			for rpo[b] > rpo[a] {
				b = u.idom[b]
			}
		}
		return a
	}
	for changed := true; changed; {
		changed = false
		for _, b := range order[1:] {
			newIdom := -1
			for _, p := range u.preds[b] {
				if rpo[p.Index] < 0 || u.idom[p.Index] < 0 {
					continue
				}
				if newIdom < 0 {
					newIdom = int(p.Index)
				} else {
					newIdom = intersect(int(p.Index), newIdom)
				}
			}
			if newIdom >= 0 && u.idom[b.Index] != newIdom {
				u.idom[b.Index] = newIdom
				changed = true
			}
		}
	}
}

// Dominates reports whether block a dominates block b (reflexive).
func (u *Unit) Dominates(a, b *cfg.Block) bool {
	if a == nil || b == nil {
		return false
	}
	x := int(b.Index)
	for {
		if x == int(a.Index) {
			return true
		}
		if x < 0 || u.idom[x] < 0 || u.idom[x] == x {
			return false
		}
		x = u.idom[x]
	}
}

// BlockOf finds the block containing the given node (searching enclosing CFG nodes).
func (u *Unit) BlockOf(n ast.Node) *cfg.Block {
	if b, ok := u.nodeBlk[n]; ok {
		return b
	}
	for _, b := range u.CFG.Blocks {
		for _, bn := range b.Nodes {
			if bn.Pos() <= n.Pos() && n.End() <= bn.End() {
				// make sure it is not inside a nested literal of this node that is a different unit
				return b
			}
		}
	}
	return nil
}

// GuardedBy reports whether node n only executes after atom a took its success edge.
func (u *Unit) GuardedBy(a *Atom, n ast.Node) bool {
	if a.Unit != u {
		return false
	}
	nb := u.BlockOf(n)
	if nb == nil {
		return false
	}
	if a.Tail || a.Wrapper {
		return false
	}
	if nb == a.Block {
		// same block: the condition is the last node, everything else precedes it
		return false
	}
	return u.Dominates(a.OkSucc, nb) && a.OkSucc != a.FailSucc && len(u.preds[a.OkSucc]) >= 1 && u.onlyVia(a, nb)
}

// onlyVia: OkSucc may have other predecessors (e.g. if-done join). Then dominance by OkSucc is not
// enough; require that a.Block dominates nb and nb is not dominated by FailSucc.
func (u *Unit) onlyVia(a *Atom, nb *cfg.Block) bool {
	return u.Dominates(a.Block, nb) && !u.Dominates(a.FailSucc, nb)
}

// Guards reports whether atom a's block dominates n's block and n is not in a's failure branch.
func (u *Unit) Guards(a *Atom, n ast.Node) bool {
	nb := u.BlockOf(n)
	if nb == nil || a.Unit != u || a.Tail || a.Wrapper {
		return false
	}
	if nb == a.Block {
		return false
	}
	return u.Dominates(a.Block, nb) && !u.Dominates(a.FailSucc, nb)
}

// ---------- reaching definitions ----------

func (u *Unit) defsOfNode(n ast.Node) []*def {
	var out []*def
	addLhs := func(lhs ast.Expr, node ast.Node, rhs ast.Expr) {
		id, ok := ast.Unparen(lhs).(*ast.Ident)
		if !ok || id.Name == "_" {
			return
		}
		var v *types.Var
		if o, ok := u.Info.Defs[id].(*types.Var); ok {
			v = o
		} else if o, ok := u.Info.Uses[id].(*types.Var); ok {
			v = o
		}
		if v == nil || v.IsField() {
			return
		}
		out = append(out, &def{v: v, node: node, rhs: rhs})
	}
	switch s := n.(type) {
	case *ast.AssignStmt:
		if len(s.Rhs) == len(s.Lhs) {
			for i, l := range s.Lhs {
				rhs := s.Rhs[i]
				if s.Tok != token.ASSIGN && s.Tok != token.DEFINE {
					// op-assign: x op= y  => x depends on itself and y
					rhs = &ast.BinaryExpr{X: l, Op: token.ADD, Y: s.Rhs[i]}
				}
				addLhs(l, s, rhs)
			}
		} else if len(s.Rhs) == 1 {
			for _, l := range s.Lhs {
				addLhs(l, s, s.Rhs[0])
			}
		}
	case *ast.ValueSpec:
		if len(s.Values) == len(s.Names) {
			for i, nm := range s.Names {
				addLhs(nm, s, s.Values[i])
			}
		} else if len(s.Values) == 1 {
			for _, nm := range s.Names {
				addLhs(nm, s, s.Values[0])
			}
		} else {
			for _, nm := range s.Names {
				addLhs(nm, s, nil)
			}
		}
	case *ast.IncDecStmt:
		addLhs(s.X, s, s.X)
	}
	return out
}

func (u *Unit) computeReachingDefs() {
	gen := map[*cfg.Block]map[*types.Var]*def{}
	for _, b := range u.CFG.Blocks {
		g := map[*types.Var]*def{}
		for _, n := range b.Nodes {
			for _, d := range u.defsOfNode(n) {
				g[d.v] = d
			}
		}
		gen[b] = g
	}
	u.rdIn = map[*cfg.Block]defSet{}
	out := map[*cfg.Block]defSet{}
	for _, b := range u.CFG.Blocks {
		u.rdIn[b] = defSet{}
		out[b] = defSet{}
	}
	for changed := true; changed; {
		changed = false
		for _, b := range u.CFG.Blocks {
			in := u.rdIn[b]
			for _, p := range u.preds[b] {
				for d := range out[p] {
					if !in[d] {
						in[d] = true
						changed = true
					}
				}
			}
			o := out[b]
			for d := range in {
				if _, killed := gen[b][d.v]; !killed && !o[d] {
					o[d] = true
					changed = true
				}
			}
			for _, d := range gen[b] {
				if !o[d] {
					o[d] = true
					changed = true
				}
			}
		}
	}
}

// reachingDefs returns the definitions of v that reach the node `at` (which must be a node of a
// CFG block or contained in one).
func (u *Unit) reachingDefs(v *types.Var, at ast.Node) []*def {
	b := u.BlockOf(at)
	if b == nil {
		return nil
	}
	// scan backwards inside the block from `at`
	idx := -1
	for i, n := range b.Nodes {
		if n.Pos() <= at.Pos() && at.End() <= n.End() {
			idx = i
			break
		}
	}
	if idx < 0 {
		idx = len(b.Nodes)
	}
	// defs in the same node before use: `if err := f(); err != nil` puts init as separate node, fine.
	for i := idx - 1; i >= 0; i-- {
		for _, d := range u.defsOfNode(b.Nodes[i]) {
			if d.v == v {
				// last def in that node wins; there is only one per var per node
				return []*def{d}
			}
		}
	}
	var out []*def
	for d := range u.rdIn[b] {
		if d.v == v {
			out = append(out, d)
		}
	}
	sort.Slice(out, func(i, j int) bool { return out[i].node.Pos() < out[j].node.Pos() })
	return out
}

// ---------- atom extraction ----------

func flagLike(t types.Type) bool {
	if t == nil {
		return false
	}
	if isErrorType(t) {
		return true
	}
	switch tt := t.(type) {
	case *types.Slice:
		return isErrorType(tt.Elem())
	case *types.Named:
		if tt.Obj().Pkg() != nil && strings.HasSuffix(tt.Obj().Pkg().Path(), "/pkg/base/ct") {
			return true
		}
		// error-implementing named types (e.g. *errs.Error) are flag-like too
		if types.Implements(tt, errorIface) || types.Implements(types.NewPointer(tt), errorIface) {
			return true
		}
	case *types.Pointer:
		if types.Implements(tt, errorIface) {
			return true
		}
	}
	if b, ok := t.Underlying().(*types.Basic); ok {
		return b.Info()&(types.IsBoolean|types.IsInteger) != 0
	}
	return false
}

var errorIface = types.Universe.Lookup("error").Type().Underlying().(*types.Interface)

type leafInfo struct {
	expr     ast.Expr
	failTrue bool
	conj     []ast.Expr // sibling leaves that must hold jointly for the failure edge to be taken
}

// splitLeaves decomposes cond into leaves. In disjunctive position (A || B failing when true, or
// A && B failing when false) every leaf alone triggers the failure edge; in conjunctive position
// the leaves trigger it only jointly and each records its siblings (a guard weakened by
// `&& extra` changes signature).
func splitLeaves(e ast.Expr, failTrue bool, out *[]leafInfo) {
	e = ast.Unparen(e)
	switch x := e.(type) {
	case *ast.UnaryExpr:
		if x.Op == token.NOT {
			splitLeaves(x.X, !failTrue, out)
			return
		}
	case *ast.BinaryExpr:
		disj := (x.Op == token.LOR && failTrue) || (x.Op == token.LAND && !failTrue)
		conj := (x.Op == token.LAND && failTrue) || (x.Op == token.LOR && !failTrue)
		if disj {
			splitLeaves(x.X, failTrue, out)
			splitLeaves(x.Y, failTrue, out)
			return
		}
		if conj {
			var l, r []leafInfo
			splitLeaves(x.X, failTrue, &l)
			splitLeaves(x.Y, failTrue, &r)
			for i := range l {
				for _, o := range r {
					l[i].conj = append(l[i].conj, o.expr)
				}
			}
			for i := range r {
				for _, o := range l {
					r[i].conj = append(r[i].conj, o.expr)
				}
			}
			*out = append(*out, l...)
			*out = append(*out, r...)
			return
		}
	}
	*out = append(*out, leafInfo{expr: e, failTrue: failTrue})
}

func (u *Unit) calleeKey(call *ast.CallExpr) string {
	obj := typeutil.Callee(u.Info, call)
	switch o := obj.(type) {
	case *types.Func:
		return FuncKey(o)
	case *types.Builtin:
		return "builtin." + o.Name()
	case *types.Var:
		if o.IsField() {
			return "fieldfunc." + o.Name()
		}
		return "closure"
	case nil:
		// conversion or call of a func-typed expression
		if tv, ok := u.Info.Types[call.Fun]; ok && tv.IsType() {
			return ""
		}
		return "dynamic"
	}
	return "dynamic"
}

// rootCalls collects the calls whose result is (part of) the value of e: through parens, !,
// conversions, len(), &&, ||, &, |, append(), and flag-like local variables (reaching defs).
func (u *Unit) rootCalls(e ast.Expr, at ast.Node, seen map[ast.Node]bool, depth int, out *[]*ast.CallExpr) {
	if e == nil || depth > 8 {
		return
	}
	e = ast.Unparen(e)
	switch x := e.(type) {
	case *ast.UnaryExpr:
		u.rootCalls(x.X, at, seen, depth, out)
	case *ast.BinaryExpr:
		u.rootCalls(x.X, at, seen, depth, out)
		u.rootCalls(x.Y, at, seen, depth, out)
	case *ast.StarExpr:
		u.rootCalls(x.X, at, seen, depth, out)
	case *ast.CallExpr:
		if tv, ok := u.Info.Types[x.Fun]; ok && tv.IsType() {
			if len(x.Args) == 1 {
				u.rootCalls(x.Args[0], at, seen, depth, out)
			}
			return
		}
		if id, ok := ast.Unparen(x.Fun).(*ast.Ident); ok {
			if b, ok := u.Info.Uses[id].(*types.Builtin); ok {
				switch b.Name() {
				case "len", "cap", "append", "min", "max":
					for _, a := range x.Args {
						u.rootCalls(a, at, seen, depth, out)
						// len(x) with x := f(): the tested length is that of f's result
						if id, ok := ast.Unparen(a).(*ast.Ident); ok && (b.Name() == "len" || b.Name() == "cap") {
							if dc := u.definingCall(id); dc != nil && !seen[dc] {
								seen[dc] = true
								u.rootCalls(dc, at, seen, depth+1, out)
							}
						}
					}
				}
				return
			}
		}
		// slices.Contains(xs, v) is the loop `for _, e := range xs { if e == v {…} }`
		if isSlicesContains(u.Info, x) {
			u.rootCalls(x.Args[1], at, seen, depth, out)
			return
		}
		// error wrappers: errs.Wrap(err), errs.Join(errs...), errors.Join
		if f := typeutil.StaticCallee(u.Info, x); f != nil && f.Pkg() != nil {
			pp := f.Pkg().Path()
			if (strings.HasSuffix(pp, "errs-go/errs") || pp == "errors" || pp == "fmt") && (f.Name() == "Wrap" || f.Name() == "Join" || f.Name() == "Errorf") {
				for _, a := range x.Args {
					u.rootCalls(a, at, seen, depth, out)
				}
				return
			}
		}
		// method chains on an error value: errs.Wrap(err).WithMessage(..)
		if sel, ok := ast.Unparen(x.Fun).(*ast.SelectorExpr); ok {
			if t := u.Info.TypeOf(sel.X); t != nil && (isErrorType(t) || types.Implements(t, errorIface)) {
				if f, _ := typeutil.Callee(u.Info, x).(*types.Func); f != nil && strings.HasPrefix(f.Name(), "With") {
					u.rootCalls(sel.X, at, seen, depth, out)
					return
				}
			}
		}
		*out = append(*out, x)
	case *ast.Ident:
		v, ok := u.Info.Uses[x].(*types.Var)
		if !ok || v.IsField() {
			return
		}
		if !flagLike(v.Type()) {
			return
		}
		for _, d := range u.reachingDefs(v, at) {
			if seen[d.node] && d.rhs == nil {
				continue
			}
			key := ast.Node(d.node)
			if seen[key] {
				continue
			}
			seen[key] = true
			if d.rhs != nil {
				u.rootCalls(d.rhs, d.node, seen, depth+1, out)
			}
			// accumulator idiom: a flag/abort-list updated under a condition depends on that condition
			for _, ifs := range u.enclosingIfs(d.node) {
				// only conditions that separate the update from the test matter: an `if` that encloses both the
				// definition and its use is ordinary nesting, not an accumulator
				if at != nil && ifs.Pos() <= at.Pos() && at.End() <= ifs.End() {
					continue
				}
				if !seen[ifs] {
					seen[ifs] = true
					u.rootCalls(ifs.Cond, ifs.Cond, seen, depth+1, out)
				}
			}
		}
	case *ast.IndexExpr:
		// element of a flag slice / tuple-typed thing: follow the container
		u.rootCalls(x.X, at, seen, depth, out)
	}
}

func shortType(t types.Type) string {
	if t == nil {
		return "?"
	}
	return types.TypeString(t, func(p *types.Package) string { return p.Name() })
}

// shapeOf renders a normalised description of an expression that is stable under renaming of
// locals: locals become their type, fields keep their name, constants their value.
func (u *Unit) shapeOf(e ast.Expr) string {
	e = ast.Unparen(e)
	if tv, ok := u.Info.Types[e]; ok && tv.Value != nil {
		return tv.Value.ExactString()
	}
	switch x := e.(type) {
	case *ast.Ident:
		switch o := u.Info.Uses[x].(type) {
		case *types.Nil:
			return "nil"
		case *types.Var:
			if o.IsField() {
				return "." + o.Name()
			}
			if o.Pkg() != nil && o.Parent() == o.Pkg().Scope() {
				return o.Pkg().Name() + "." + o.Name()
			}
			if u.leafMode {
				if ps := u.paramShape(o); ps != "" && !strings.HasPrefix(ps, "$lit") {
					return "⟦" + ps + "|<" + shortType(o.Type()) + ">⟧"
				}
			}
			return "<" + shortType(o.Type()) + ">"
		case *types.Const:
			return o.Name()
		}
		if o, ok := u.Info.Defs[x].(*types.Var); ok {
			return "<" + shortType(o.Type()) + ">"
		}
		return x.Name
	case *ast.SelectorExpr:
		if o, ok := u.Info.Uses[x.Sel].(*types.Var); ok && o.IsField() {
			return "." + o.Name()
		}
		if o := u.Info.Uses[x.Sel]; o != nil && o.Pkg() != nil {
			if _, isPkg := u.Info.Uses[identOf(x.X)].(*types.PkgName); isPkg {
				return o.Pkg().Name() + "." + o.Name()
			}
		}
		return u.shapeOf(x.X) + "." + x.Sel.Name
	case *ast.CallExpr:
		if id, ok := ast.Unparen(x.Fun).(*ast.Ident); ok {
			if b, ok := u.Info.Uses[id].(*types.Builtin); ok {
				args := []string{}
				for _, a := range x.Args {
					if b.Name() == "len" || b.Name() == "cap" {
						args = append(args, u.condOperand(a)) // len(x) with x := f() is len(call)
					} else {
						args = append(args, u.shapeOf(a))
					}
				}
				return b.Name() + "(" + strings.Join(args, ",") + ")"
			}
		}
		if tv, ok := u.Info.Types[x.Fun]; ok && tv.IsType() && len(x.Args) == 1 {
			return u.shapeOf(x.Args[0])
		}
		return "call"
	case *ast.UnaryExpr:
		return x.Op.String() + u.shapeOf(x.X)
	case *ast.BinaryExpr:
		return u.shapeOf(x.X) + x.Op.String() + u.shapeOf(x.Y)
	case *ast.StarExpr:
		return "*" + u.shapeOf(x.X)
	case *ast.IndexExpr:
		base := u.shapeOf(x.X)
		// an element of a local container is rendered like a range value over it: by its type
		if strings.HasPrefix(base, "<") && strings.HasSuffix(base, ">") && strings.Count(base, "<") == 1 {
			if t := u.Info.TypeOf(x); t != nil {
				return "<" + shortType(t) + ">"
			}
		}
		return base + "[]"
	case *ast.SliceExpr:
		return u.shapeOf(x.X) + "[:]"
	case *ast.TypeAssertExpr:
		return u.shapeOf(x.X) + ".(T)"
	case *ast.BasicLit:
		return x.Value
	}
	return fmt.Sprintf("%T", e)
}

func identOf(e ast.Expr) *ast.Ident {
	id, _ := ast.Unparen(e).(*ast.Ident)
	return id
}

// conjWrapper: an `if A {…}` (no else) or a single-value `case c:` of a tag switch whose body consists only of
// failing checks (`if B { return err }`).
type conjWrapper struct {
	node   ast.Node   // *ast.IfStmt or *ast.CaseClause
	leaves []ast.Expr // the conjuncts of the wrapper condition (A1, A2 of `A1 && A2`; the synthetic `x == c`)
	block  *cfg.Block // block of the wrapper condition (nil for a case clause)
	at     ast.Node
	pos    token.Pos
	inner  []ast.Expr // leaves of the checks inside
	hi     token.Pos  // end of the guarded region when it extends beyond node (early-return form)
}

func (w *conjWrapper) span() (token.Pos, token.Pos) {
	if w.hi != token.NoPos {
		return w.node.Pos(), w.hi
	}
	return w.node.Pos(), w.node.End()
}

func (w *conjWrapper) encloses(o *conjWrapper) bool {
	wl, wh := w.span()
	ol, oh := o.span()
	return wl <= ol && oh <= wh && w.node != o.node
}

func containsStr(xs []string, s string) bool {
	for _, x := range xs {
		if x == s {
			return true
		}
	}
	return false
}

func leafExprs(ls []leafInfo) []ast.Expr {
	var out []ast.Expr
	for _, l := range ls {
		out = append(out, l.expr)
	}
	return out
}

// isFailingIf: `if c { …fails… }` without else whose then-branch lies entirely in the failure region.
func (u *Unit) isFailingIf(st ast.Stmt) bool {
	is, ok := st.(*ast.IfStmt)
	if !ok || is.Else != nil || len(is.Body.List) == 0 {
		return false
	}
	b := u.BlockOf(is.Body.List[0])
	return b != nil && u.FR[b]
}

// conjWrappersOf: the chain of wrappers (innermost first) around the failing `if` whose condition is cond.
func (u *Unit) conjWrappersOf(cond ast.Expr) []*conjWrapper {
	if u.wrapperOfStmt == nil {
		u.buildWrappers()
	}
	// the IfStmt owning cond
	var own *ast.IfStmt
	for st := range u.failingIfs {
		if st.Cond == cond {
			own = st
			break
		}
	}
	if own == nil {
		return nil
	}
	var out []*conjWrapper
	var cur ast.Node = own
	for {
		w := u.wrapperOfStmt[cur]
		if w == nil {
			break
		}
		out = append(out, w)
		cur = w.node
		if cc, ok := w.node.(*ast.CaseClause); ok {
			cur = u.switchOfCase[cc]
		}
	}
	return out
}

// enableWrappers: merging `if A { <only failing checks> }` into its checks as a conjunct (so that `A && B → fail`,
// `if A { if B { fail } }` and `switch x { case c: if B { fail } }` have one inventory) is implemented but switched
// off: it made the classification of an `if` depend on whether the statements under it had been extracted into a
// helper (a mode `if` around a block of mixed statements became a "wrapper" once the block was one helper call),
// which is the more common refactoring of the two (DESIGN section 10).
const enableWrappers = false

func (u *Unit) buildWrappers() {
	u.wrapperOfStmt = map[ast.Node]*conjWrapper{}
	u.failingIfs = map[*ast.IfStmt]bool{}
	u.switchOfCase = map[*ast.CaseClause]*ast.SwitchStmt{}
	u.earlyWrappers = map[*ast.IfStmt]bool{}
	if !enableWrappers {
		return
	}
	allFailing := func(list []ast.Stmt) bool {
		if len(list) == 0 {
			return false
		}
		nIf := 0
		for _, st := range list {
			if !u.isFailingIf(st) {
				// a nested wrapper is fine too
				if is, ok := st.(*ast.IfStmt); ok && is.Else == nil && u.wrapperBody(is.Body.List) {
					nIf++
					continue
				}
				// `x, err := f(); if err != nil {…}` is the two-statement form of `if x, err := f(); err != nil {…}`
				if u.localAssign(st) {
					continue
				}
				return false
			}
			nIf++
		}
		return nIf > 0
	}
	ast.Inspect(u.Body, func(n ast.Node) bool {
		if lit, ok := n.(*ast.FuncLit); ok && lit != u.Lit {
			return false
		}
		switch x := n.(type) {
		case *ast.BlockStmt:
			u.earlyReturnWrappers(x, allFailing)
		case *ast.IfStmt:
			if u.isFailingIf(x) {
				u.failingIfs[x] = true
			}
			if x.Else != nil || x.Init != nil || u.isFailingIf(x) || !allFailing(x.Body.List) {
				return true
			}
			if t := u.Info.TypeOf(x.Cond); t == nil || !isBoolType(t) {
				return true
			}
			w := &conjWrapper{node: x, block: u.BlockOf(x.Cond), at: x.Cond, pos: x.Cond.Pos()}
			var ls []leafInfo
			splitLeaves(x.Cond, true, &ls)
			// only a pure conjunction can be merged (`A1 && A2`); a disjunctive wrapper stays a mode condition
			if len(ls) > 1 && len(ls[0].conj) == 0 {
				return true
			}
			for _, l := range ls {
				if !l.failTrue {
					return true // negated conjuncts keep their polarity only in context form
				}
			}
			w.leaves = leafExprs(ls)
			for _, st := range x.Body.List {
				u.wrapperOfStmt[st] = w
			}
			u.wrapperList = append(u.wrapperList, w)
		case *ast.SwitchStmt:
			if x.Tag == nil || x.Init != nil {
				return true
			}
			for _, st := range x.Body.List {
				cc := st.(*ast.CaseClause)
				u.switchOfCase[cc] = x
				if len(cc.List) != 1 || !allFailing(cc.Body) {
					continue
				}
				eq := &ast.BinaryExpr{X: x.Tag, Op: token.EQL, Y: cc.List[0], OpPos: cc.List[0].Pos()}
				w := &conjWrapper{node: cc, leaves: []ast.Expr{eq}, block: u.BlockOf(x.Tag), at: x.Tag, pos: cc.Pos()}
				for _, s2 := range cc.Body {
					u.wrapperOfStmt[s2] = w
				}
				u.wrapperList = append(u.wrapperList, w)
			}
		}
		return true
	})
}

// earlyReturnWrappers: `if C { return <success> }` followed, to the end of the block, only by failing checks (and a
// final success return) is `if !C { checks }`: the negation of C is a conjunct of those checks.
func (u *Unit) earlyReturnWrappers(bs *ast.BlockStmt, allFailing func([]ast.Stmt) bool) {
	for k, st := range bs.List {
		is, ok := st.(*ast.IfStmt)
		if !ok || is.Else != nil || is.Init != nil || len(is.Body.List) != 1 || u.isFailingIf(is) {
			continue
		}
		if _, isRet := is.Body.List[0].(*ast.ReturnStmt); !isRet {
			continue
		}
		if b := u.BlockOf(is.Body.List[0]); b == nil || u.FR[b] {
			continue
		}
		rest := bs.List[k+1:]
		if n := len(rest); n > 0 {
			if _, isRet := rest[n-1].(*ast.ReturnStmt); isRet {
				rest = rest[:n-1]
			}
		}
		if !allFailing(rest) {
			continue
		}
		if t := u.Info.TypeOf(is.Cond); t == nil || !isBoolType(t) {
			continue
		}
		var ls []leafInfo
		splitLeaves(is.Cond, false, &ls)
		if len(ls) > 1 && len(ls[0].conj) == 0 {
			continue
		}
		var leaves []ast.Expr
		okAll := true
		for _, l := range ls {
			if l.failTrue {
				leaves = append(leaves, l.expr)
				continue
			}
			// a comparison that must be false is the flipped comparison that must be true
			be, isBin := ast.Unparen(l.expr).(*ast.BinaryExpr)
			flip := map[token.Token]token.Token{token.EQL: token.NEQ, token.NEQ: token.EQL, token.LSS: token.GEQ, token.GEQ: token.LSS, token.GTR: token.LEQ, token.LEQ: token.GTR}
			if !isBin || flip[be.Op] == 0 {
				okAll = false
				break
			}
			leaves = append(leaves, &ast.BinaryExpr{X: be.X, Op: flip[be.Op], Y: be.Y, OpPos: be.OpPos})
		}
		if !okAll {
			continue
		}
		w := &conjWrapper{node: is, leaves: leaves, block: u.BlockOf(is.Cond), at: is.Cond, pos: is.Cond.Pos(), hi: bs.End()}
		for _, s2 := range rest {
			if u.wrapperOfStmt[s2] == nil {
				u.wrapperOfStmt[s2] = w
			}
		}
		u.wrapperList = append(u.wrapperList, w)
		u.earlyWrappers[is] = true
		return // one early-return wrapper per block
	}
}

// localAssign: an assignment / definition whose targets are local variables (or blank), or a `var` declaration.
func (u *Unit) localAssign(st ast.Stmt) bool {
	switch x := st.(type) {
	case *ast.DeclStmt:
		return true
	case *ast.AssignStmt:
		for _, l := range x.Lhs {
			id, ok := ast.Unparen(l).(*ast.Ident)
			if !ok {
				return false
			}
			if id.Name == "_" {
				continue
			}
			v, _ := u.Info.ObjectOf(id).(*types.Var)
			if v == nil || v.IsField() || (v.Pkg() != nil && v.Parent() == v.Pkg().Scope()) {
				return false
			}
		}
		return true
	}
	return false
}

// wrapperBody: every statement is a failing `if` (used for nested wrappers).
func (u *Unit) wrapperBody(list []ast.Stmt) bool {
	if len(list) == 0 {
		return false
	}
	for _, st := range list {
		if !u.isFailingIf(st) {
			return false
		}
	}
	return true
}

func (u *Unit) extractAtoms(g *GuardEngine) {
	pd := u.computeControlDeps()
	for _, b := range u.CFG.Blocks {
		if !b.Live || len(b.Succs) != 2 || len(b.Nodes) == 0 || u.FR[b] {
			continue
		}
		cond, ok := b.Nodes[len(b.Nodes)-1].(ast.Expr)
		if !ok {
			continue
		}
		t, f := b.Succs[0], b.Succs[1]
		var failTrue bool
		var failSucc, okSucc *cfg.Block
		switch {
		case u.FR[t] && !u.FR[f]:
			failTrue, failSucc, okSucc = true, t, f
		case u.FR[f] && !u.FR[t]:
			failTrue, failSucc, okSucc = false, f, t
		default:
			continue
		}
		// range/for loop heads are not guards
		if b.Kind == cfg.KindRangeLoop {
			continue
		}
		var leaves []leafInfo
		if tt := u.Info.TypeOf(cond); tt != nil && isBoolType(tt) {
			splitLeaves(cond, failTrue, &leaves)
			leaves = u.expandLeaves(leaves)
		} else {
			leaves = []leafInfo{{expr: cond, failTrue: failTrue}}
		}
		must := pd[b]
		// `if A { if B { fail } }` and `switch x { case c: if B { fail } }` are the guard `A && B → fail`: the wrapper's
		// condition is a conjunct of the inner check (and the inner check is as unconditional as the wrapper)
		if ws := u.conjWrappersOf(cond); len(ws) > 0 {
			var wl []ast.Expr
			for _, w := range ws {
				wl = append(wl, w.leaves...)
			}
			for i := range leaves {
				leaves[i].conj = append(leaves[i].conj, wl...)
			}
			outer := ws[len(ws)-1]
			if outer.block != nil {
				must = pd[outer.block]
			}
			for _, w := range ws {
				w.inner = append(w.inner, leafExprs(leaves)...)
			}
		}
		for _, lf := range leaves {
			a := &Atom{Leaf: lf.expr, FailTrue: lf.failTrue, Block: b, FailSucc: failSucc, OkSucc: okSucc, Unit: u,
				Pos: lf.expr.Pos(), Must: must, InLit: u.Lit != nil}
			var calls []*ast.CallExpr
			u.rootCalls(lf.expr, cond, map[ast.Node]bool{}, 0, &calls)
			a.Calls = calls
			ks := map[string]bool{}
			for _, c := range calls {
				if k := u.calleeKey(c); k != "" {
					ks[k] = true
				}
			}
			for k := range ks {
				a.Callees = append(a.Callees, k)
			}
			sort.Strings(a.Callees)
			a.Shape = u.leafShape(lf.expr, lf.failTrue)
			u.leafMode = true
			a.ShapeP = u.leafShape(lf.expr, lf.failTrue)
			u.leafMode = false
			if len(lf.conj) > 0 {
				cs, csp := []string{}, []string{}
				for _, c := range lf.conj {
					cs = append(cs, u.leafShape(c, lf.failTrue))
					u.leafMode = true
					csp = append(csp, u.leafShape(c, lf.failTrue))
					u.leafMode = false
				}
				sort.Strings(cs)
				sort.Strings(csp)
				a.Conj = "&&(" + strings.Join(cs, ",") + ")"
				a.ConjP = strings.Join(csp, "\x00")
			}
			u.Atoms = append(u.Atoms, a)
		}
	}
	// the wrappers themselves: `A` of `if A { if B { fail } }` is the other conjunct of `A && B → fail`
	for _, w := range u.wrapperList {
		if len(w.inner) == 0 {
			continue
		}
		for i, le := range w.leaves {
			a := &Atom{Leaf: le, FailTrue: true, Block: w.block, Unit: u, Pos: w.pos, Must: w.block != nil && pd[w.block], InLit: u.Lit != nil, Wrapper: true}
			var calls []*ast.CallExpr
			u.rootCalls(le, w.at, map[ast.Node]bool{}, 0, &calls)
			a.Calls = calls
			ks := map[string]bool{}
			for _, c := range calls {
				if k := u.calleeKey(c); k != "" {
					ks[k] = true
				}
			}
			for k := range ks {
				a.Callees = append(a.Callees, k)
			}
			sort.Strings(a.Callees)
			a.Shape = u.leafShape(le, true)
			u.leafMode = true
			a.ShapeP = u.leafShape(le, true)
			u.leafMode = false
			var conj []ast.Expr
			for j, o := range w.leaves {
				if j != i {
					conj = append(conj, o)
				}
			}
			conj = append(conj, w.inner...)
			for _, ow := range u.wrapperList {
				if ow != w && ow.encloses(w) {
					conj = append(conj, ow.leaves...)
				}
				if ow != w && w.encloses(ow) {
					conj = append(conj, ow.leaves...)
				}
			}
			cs, csp := []string{}, []string{}
			seen := map[string]bool{}
			for _, c := range conj {
				sh := u.leafShape(c, true)
				if seen[sh] {
					continue
				}
				seen[sh] = true
				cs = append(cs, sh)
				u.leafMode = true
				csp = append(csp, u.leafShape(c, true))
				u.leafMode = false
			}
			sort.Strings(cs)
			sort.Strings(csp)
			a.Conj = "&&(" + strings.Join(cs, ",") + ")"
			a.ConjP = strings.Join(csp, "\x00")
			u.Atoms = append(u.Atoms, a)
		}
	}
	// tail atoms: `return f(...)`/`return x, f(...)` where the error operand is a call
	for _, ex := range u.Exits {
		if ex.Ret == nil || u.FR[ex.Block] && !ex.Failure {
			continue
		}
		res := ex.Ret.Results
		if len(res) == 0 {
			continue
		}
		last := ast.Unparen(res[len(res)-1])
		for {
			if ue, ok := last.(*ast.UnaryExpr); ok && ue.Op == token.NOT {
				last = ast.Unparen(ue.X)
				continue
			}
			break
		}
		call, ok := last.(*ast.CallExpr)
		if !ok {
			// a predicate's `return A && B` (`return x.Size() >= t && x.IsSubSet(ps)`) is
			// `if !A || !B { return false }; return true`: every conjunct is a guard of the true result
			res0 := ast.Unparen(res[len(res)-1])
			if be, isBin := res0.(*ast.BinaryExpr); isBin && isBoolType(u.Info.TypeOf(res0)) && !u.FR[ex.Block] {
				if tv, has := u.Info.Types[res0]; !has || tv.Value == nil {
					var leaves []leafInfo
					splitLeaves(be, false, &leaves)
					leaves = u.expandLeaves(leaves)
					for _, lf := range leaves {
						a := &Atom{Tail: true, Leaf: lf.expr, FailTrue: lf.failTrue, Block: ex.Block, Unit: u, Pos: lf.expr.Pos(), Must: pd[ex.Block] && u.singleOutputExit(ex), InLit: u.Lit != nil}
						var calls []*ast.CallExpr
						u.rootCalls(lf.expr, ex.Ret, map[ast.Node]bool{}, 0, &calls)
						a.Calls = calls
						ks := map[string]bool{}
						for _, c := range calls {
							if k := u.calleeKey(c); k != "" {
								ks[k] = true
							}
						}
						for k := range ks {
							a.Callees = append(a.Callees, k)
						}
						sort.Strings(a.Callees)
						a.Shape = u.leafShape(lf.expr, lf.failTrue)
						u.leafMode = true
						a.ShapeP = u.leafShape(lf.expr, lf.failTrue)
						u.leafMode = false
						u.Atoms = append(u.Atoms, a)
					}
				}
			}
			continue
		}
		// only calls that produce the error/bool result themselves (not constructors of error values)
		rt := u.Info.TypeOf(call)
		isTuple := false
		if tup, ok := rt.(*types.Tuple); ok && tup.Len() > 0 {
			rt = tup.At(tup.Len() - 1).Type()
			isTuple = true
		}
		if !(isErrorType(rt) || isBoolType(rt)) {
			continue
		}
		_ = isTuple
		var calls []*ast.CallExpr
		u.rootCalls(call, ex.Ret, map[ast.Node]bool{}, 0, &calls)
		if len(calls) == 0 {
			continue
		}
		a := &Atom{Tail: true, Block: ex.Block, Unit: u, Pos: call.Pos(), Must: pd[ex.Block] && u.singleOutputExit(ex), InLit: u.Lit != nil, Calls: calls}
		ks := map[string]bool{}
		for _, c := range calls {
			k := u.calleeKey(c)
			if k == "" {
				continue
			}
			// constructing an error value is not a check
			if f := typeutil.StaticCallee(u.Info, c); f != nil && f.Pkg() != nil {
				pp := f.Pkg().Path()
				if strings.HasSuffix(pp, "errs-go/errs") || pp == "errors" || pp == "fmt" {
					continue
				}
				if sig, ok := f.Type().(*types.Signature); ok && sig.Recv() != nil {
					if types.Implements(sig.Recv().Type(), errorIface) && strings.HasPrefix(f.Name(), "With") {
						continue
					}
				}
			}
			ks[k] = true
		}
		if len(ks) == 0 {
			continue
		}
		for k := range ks {
			a.Callees = append(a.Callees, k)
		}
		sort.Strings(a.Callees)
		u.Atoms = append(u.Atoms, a)
	}
	// skip atoms: `if cond { ...; continue }` filters inside loops (no else)
	ast.Inspect(u.Body, func(n ast.Node) bool {
		if lit, ok := n.(*ast.FuncLit); ok && lit != u.Lit {
			return false
		}
		ifs, ok := n.(*ast.IfStmt)
		if !ok || ifs.Else != nil || len(ifs.Body.List) == 0 {
			return true
		}
		blk := u.BlockOf(ifs.Cond)
		if blk == nil || !blk.Live || u.FR[blk] {
			return true
		}
		skipWhen := true
		pure := len(ifs.Body.List) == 1
		br, ok := ifs.Body.List[len(ifs.Body.List)-1].(*ast.BranchStmt)
		if ok && br.Tok == token.CONTINUE && u.lastInLoopBody(ifs) && br.Label == nil {
			// `if c { X; continue }` as the last statement is `if c { X }`: the trailing continue is a no-op
			if pure {
				return true
			}
			ok = false
		}
		if ok && br.Tok == token.CONTINUE {
		} else {
			pure = true
			// `for … { if c { body } }` is `for … { if !c { continue }; body }`: the same element filter
			if !u.lastInLoopBody(ifs) || len(blk.Succs) != 2 || u.FR[blk.Succs[0]] || u.FR[blk.Succs[1]] {
				return true
			}
			if _, isRet := ifs.Body.List[len(ifs.Body.List)-1].(*ast.ReturnStmt); isRet {
				return true // a search loop (`if found { return x }`), not a filter
			}
			if bs, isBr := ifs.Body.List[len(ifs.Body.List)-1].(*ast.BranchStmt); isBr && bs.Tok == token.BREAK {
				return true
			}
			skipWhen = false
		}
		var leaves []leafInfo
		splitLeaves(ifs.Cond, skipWhen, &leaves)
		leaves = u.expandLeaves(leaves)
		for _, lf := range leaves {
			a := &Atom{Leaf: lf.expr, FailTrue: lf.failTrue, Block: blk, Unit: u, Pos: lf.expr.Pos(), Must: pd[blk], InLit: u.Lit != nil, Skip: true, PureSkip: pure}
			if len(blk.Succs) == 2 {
				a.FailSucc, a.OkSucc = blk.Succs[0], blk.Succs[1]
				if !skipWhen {
					a.FailSucc, a.OkSucc = blk.Succs[1], blk.Succs[0]
				}
			}
			var calls []*ast.CallExpr
			u.rootCalls(lf.expr, ifs.Cond, map[ast.Node]bool{}, 0, &calls)
			a.Calls = calls
			ks := map[string]bool{}
			for _, c := range calls {
				if k := u.calleeKey(c); k != "" {
					ks[k] = true
				}
			}
			for k := range ks {
				a.Callees = append(a.Callees, k)
			}
			sort.Strings(a.Callees)
			a.Shape = u.leafShape(lf.expr, lf.failTrue)
			u.leafMode = true
			a.ShapeP = u.leafShape(lf.expr, lf.failTrue)
			u.leafMode = false
			u.Atoms = append(u.Atoms, a)
		}
		return true
	})
	// nested literals: analyse each and attribute their atoms
	ast.Inspect(u.Body, func(n ast.Node) bool {
		if lit, ok := n.(*ast.FuncLit); ok {
			if u.foldedLits[lit] {
				return false // its body already is the leaf of the element-predicate call around it
			}
			lu := g.litUnit(u.Fn, lit)
			for _, a := range lu.Atoms {
				u.Atoms = append(u.Atoms, a)
			}
			return false
		}
		return true
	})
	sort.SliceStable(u.Atoms, func(i, j int) bool { return u.Atoms[i].Pos < u.Atoms[j].Pos })
}

// singleOutputExit: a tail atom is MUST only when its return is the only non-failure exit.
func (u *Unit) singleOutputExit(ex *Exit) bool {
	n := 0
	for _, e := range u.Exits {
		if !e.Failure && !u.FR[e.Block] {
			n++
		}
	}
	return n == 1
}

func (u *Unit) leafShape(e ast.Expr, failTrue bool) string {
	e = ast.Unparen(e)
	neg := ""
	if !failTrue {
		neg = "!"
	}
	switch x := e.(type) {
	case *ast.BinaryExpr:
		op := x.Op
		if !failTrue {
			switch op {
			case token.EQL:
				op = token.NEQ
			case token.NEQ:
				op = token.EQL
			case token.LSS:
				op = token.GEQ
			case token.GEQ:
				op = token.LSS
			case token.GTR:
				op = token.LEQ
			case token.LEQ:
				op = token.GTR
			default:
				return neg + "(" + u.shapeOf(x) + ")"
			}
		}
		l, r := u.condOperand(x.X), u.condOperand(x.Y)
		if (op == token.EQL || op == token.NEQ) && l > r {
			l, r = r, l
		}
		// canonical orientation for orderings
		if op == token.GTR {
			l, r, op = r, l, token.LSS
		} else if op == token.GEQ {
			l, r, op = r, l, token.LEQ
		}
		s := l + op.String() + r
		if strings.Contains(s, "<error>") && strings.Contains(s, "nil") {
			return "err"
		}
		if u.leafMode && (op == token.EQL || op == token.NEQ) {
			return l + "⟪" + op.String() + "⟫" + r // operand order is re-canonicalised after substitution
		}
		return s
	case *ast.CallExpr:
		if isSlicesContains(u.Info, x) {
			// rendered as the element comparison of the equivalent loop
			elem := "?"
			if sl, ok := u.Info.TypeOf(x.Args[0]).Underlying().(*types.Slice); ok {
				elem = "<" + shortType(sl.Elem()) + ">"
			}
			op := token.EQL
			if !failTrue {
				op = token.NEQ
			}
			l, r := elem, u.condOperand(x.Args[1])
			if u.leafMode {
				return l + "⟪" + op.String() + "⟫" + r
			}
			if l > r {
				l, r = r, l
			}
			return l + op.String() + r
		}
		return neg + "call"
	}
	return neg + u.shapeOf(e)
}

// elemPredicate: `slices.ContainsFunc(xs, func(x T) bool { return E })` / `sliceutils.Any(xs, …)` (some element
// satisfies E) and `sliceutils.All(xs, …)` (every element does) with a single-return literal: the body E and
// whether the call means "exists" (true) or "for all" (false).
func (u *Unit) elemPredicate(e ast.Expr) (body ast.Expr, xs ast.Expr, exists bool, lit *ast.FuncLit) {
	call, ok := ast.Unparen(e).(*ast.CallExpr)
	if !ok || len(call.Args) != 2 {
		return nil, nil, false, nil
	}
	f := typeutil.StaticCallee(u.Info, call)
	if f == nil || f.Pkg() == nil {
		return nil, nil, false, nil
	}
	pp, name := f.Pkg().Path(), f.Name()
	switch {
	case pp == "slices" && name == "ContainsFunc":
		exists = true
	case strings.HasSuffix(pp, "/pkg/base/utils/sliceutils") && name == "Any":
		exists = true
	case strings.HasSuffix(pp, "/pkg/base/utils/sliceutils") && name == "All":
		exists = false
	default:
		return nil, nil, false, nil
	}
	var bodyList []ast.Stmt
	fl, ok := ast.Unparen(call.Args[1]).(*ast.FuncLit)
	if ok {
		bodyList = fl.Body.List
	} else {
		// a named predicate of the same package (`slices.ContainsFunc(rest, isInvalidNonce)`)
		var pf *types.Func
		switch a := ast.Unparen(call.Args[1]).(type) {
		case *ast.Ident:
			pf, _ = u.Info.Uses[a].(*types.Func)
			// a local closure variable (`isBad := func(x T) bool { return … }`)
			if pf == nil {
				if rhs := u.uniqueLocalDef(a); rhs != nil {
					if l, isLit := ast.Unparen(rhs).(*ast.FuncLit); isLit {
						fl, ok = l, true
						bodyList = l.Body.List
					}
				}
			}
		}
		if ok && fl != nil {
			pf = nil
		} else if pf == nil || pf.Pkg() != u.Fn.Obj.Pkg() {
			return nil, nil, false, nil
		}
		if pf != nil {
			pd := u.prog.Funcs[pf.Origin()]
			if pd == nil || pd.Decl.Body == nil {
				return nil, nil, false, nil
			}
			bodyList = pd.Decl.Body.List
		}
	}
	if len(bodyList) != 1 {
		return nil, nil, false, nil
	}
	ret, ok := bodyList[0].(*ast.ReturnStmt)
	if !ok || len(ret.Results) != 1 {
		return nil, nil, false, nil
	}
	return ret.Results[0], call.Args[0], exists, fl
}

// expandLeaves rewrites element-predicate leaves into the test of the equivalent loop
// (`if slices.ContainsFunc(xs, func(x) bool { return x == nil }) { fail }` is `for _, x := range xs { if x == nil { fail } }`)
// and drops the vacuous `len(xs) > 0 &&` in front of them.
func (u *Unit) expandLeaves(leaves []leafInfo) []leafInfo {
	var out []leafInfo
	var ranged []ast.Expr
	for _, lf := range leaves {
		body, xs, exists, lit := u.elemPredicate(lf.expr)
		// "some element satisfies E" failing when true, or "all satisfy E" failing when false, is a per-element test
		if body == nil || exists != lf.failTrue {
			if c, ok := ast.Unparen(lf.expr).(*ast.CallExpr); ok && isSlicesContains(u.Info, c) && lf.failTrue {
				ranged = append(ranged, c.Args[0])
			}
			out = append(out, lf)
			continue
		}
		if u.foldedLits == nil {
			u.foldedLits = map[*ast.FuncLit]bool{}
		}
		if lit != nil {
			u.foldedLits[lit] = true
		}
		ranged = append(ranged, xs)
		var sub []leafInfo
		splitLeaves(body, lf.failTrue, &sub)
		for i := range sub {
			sub[i].conj = append(sub[i].conj, lf.conj...)
		}
		out = append(out, sub...)
	}
	if len(ranged) == 0 {
		return out
	}
	vacuous := func(e ast.Expr) bool {
		be, ok := ast.Unparen(e).(*ast.BinaryExpr)
		if !ok {
			return false
		}
		for _, side := range []ast.Expr{be.X, be.Y} {
			if c, ok := ast.Unparen(side).(*ast.CallExpr); ok && len(c.Args) == 1 {
				if id, ok := ast.Unparen(c.Fun).(*ast.Ident); ok {
					if b, ok := u.Info.Uses[id].(*types.Builtin); ok && b.Name() == "len" {
						for _, xs := range ranged {
							if sameExpr(c.Args[0], xs) {
								return true
							}
						}
					}
				}
			}
		}
		return false
	}
	var kept []leafInfo
	for _, lf := range out {
		if vacuous(lf.expr) {
			continue
		}
		var cj []ast.Expr
		for _, c := range lf.conj {
			if !vacuous(c) {
				cj = append(cj, c)
			}
		}
		lf.conj = cj
		kept = append(kept, lf)
	}
	return kept
}

func isSlicesContains(info *types.Info, c *ast.CallExpr) bool {
	f := typeutil.StaticCallee(info, c)
	return f != nil && f.Pkg() != nil && f.Pkg().Path() == "slices" && f.Name() == "Contains" && len(c.Args) == 2
}

// computeControlDeps returns for each block whether it is *unconditional* with respect to
// non-guard, non-loop branching: i.e. in the graph with failure-region blocks removed, the block
// post-dominates the entry or is control dependent only on loop heads.
func (u *Unit) computeControlDeps() map[*cfg.Block]bool {
	// Build reduced graph: nodes = live non-FR blocks; edges to non-FR successors.
	blocks := []*cfg.Block{}
	for _, b := range u.CFG.Blocks {
		if b.Live && !u.FR[b] {
			blocks = append(blocks, b)
		}
	}
	succ := map[*cfg.Block][]*cfg.Block{}
	for _, b := range blocks {
		for _, s := range b.Succs {
			if !u.FR[s] {
				succ[b] = append(succ[b], s)
			}
		}
	}
	// post-dominator sets via iterative dataflow on small graphs (bitsets by index).
	n := len(u.CFG.Blocks)
	full := make([]bool, n)
	for _, b := range blocks {
		full[b.Index] = true
	}
	pdom := map[*cfg.Block][]bool{}
	for _, b := range blocks {
		if len(succ[b]) == 0 {
			s := make([]bool, n)
			s[b.Index] = true
			pdom[b] = s
		} else {
			s := make([]bool, n)
			copy(s, full)
			pdom[b] = s
		}
	}
	for changed := true; changed; {
		changed = false
		for i := len(blocks) - 1; i >= 0; i-- {
			b := blocks[i]
			if len(succ[b]) == 0 {
				continue
			}
			ns := make([]bool, n)
			copy(ns, full)
			for _, s := range succ[b] {
				ps := pdom[s]
				for k := range ns {
					ns[k] = ns[k] && ps[k]
				}
			}
			ns[b.Index] = true
			old := pdom[b]
			for k := range ns {
				if ns[k] != old[k] {
					pdom[b] = ns
					changed = true
					break
				}
			}
		}
	}
	// direct control dependence: a depends on b iff a post-dominates some successor of b but not b itself
	cd := map[*cfg.Block][]*cfg.Block{}
	for _, a := range blocks {
		for _, b := range blocks {
			if len(succ[b]) < 2 || b == a || pdom[b][a.Index] {
				continue
			}
			for _, s := range succ[b] {
				if pdom[s][a.Index] {
					cd[a] = append(cd[a], b)
					break
				}
			}
		}
	}
	// a block is unconditional iff every controller is a loop head that is itself unconditional
	// (transitively: a check inside a loop that sits under an `if` is conditional)
	res := map[*cfg.Block]bool{}
	state := map[*cfg.Block]int{} // 1 = in progress, 2 = done
	var eval func(a *cfg.Block) bool
	eval = func(a *cfg.Block) bool {
		if state[a] == 2 {
			return res[a]
		}
		if state[a] == 1 {
			return true // cycle through loop heads
		}
		state[a] = 1
		ok := true
		for _, b := range cd[a] {
			if b.Kind != cfg.KindRangeLoop && b.Kind != cfg.KindForLoop {
				ok = false
				break
			}
			if !eval(b) {
				ok = false
				break
			}
		}
		res[a] = ok
		state[a] = 2
		return ok
	}
	for _, a := range blocks {
		eval(a)
	}
	return res
}

// ---------- flattening through unexported helpers ----------

// FlatAtoms returns the atoms of fd plus the atoms of unexported in-module helpers (and local
// closures) whose failure is itself guarded in fd, transitively.
func (g *GuardEngine) FlatAtoms(fd *FuncDecl) []*Atom {
	return g.flatAtoms(fd, map[*FuncDecl]bool{}, 0)
}

func (g *GuardEngine) flatAtoms(fd *FuncDecl, onPath map[*FuncDecl]bool, depth int) []*Atom {
	if depth == 0 {
		if r, ok := g.flat[fd]; ok {
			return r
		}
	}
	if onPath[fd] || depth > 8 {
		return nil
	}
	onPath[fd] = true
	defer delete(onPath, fd)
	u := g.UnitOf(fd)
	var out []*Atom
	for _, a := range u.Atoms {
		out = append(out, a)
		for _, c := range a.Calls {
			f := typeutil.StaticCallee(a.Unit.Info, c)
			if f == nil || !InModule(f) {
				continue
			}
			f = f.Origin()
			if f.Exported() && !g.isNewFunc(f) {
				continue
			}
			hd := g.prog.Funcs[f]
			if hd == nil {
				continue
			}
			for _, ha := range g.flatAtoms(hd, onPath, depth+1) {
				cp := *ha
				cp.Must = ha.Must && a.Must
				if cp.Via == "" {
					cp.Via = FuncKey(f)
				}
				// a check moved into a helper keeps the blame attached at the call site
				if len(cp.ViaTags) == 0 {
					cp.ViaTags = append(append([]string{}, a.BlameTags()...), a.ViaTags...)
				}
				cp.Outer = a
				// operands that are parameters of the helper are the call-site arguments
				cp.Substs = append(append([]paramSubst{}, ha.Substs...), newParamSubst(a.Unit, c))
				// the same for the tested expression itself: `rows <= 0` in a helper called with dto.Rows is `.Rows<=0`
				if strings.Contains(ha.ShapeP, "⟦") || strings.Contains(ha.ConjP, "⟦") {
					ls := newLeafSubst(a.Unit, c)
					cp.ShapeP = ls.applyLeaf(ha.ShapeP)
					cp.ConjP = ls.applyLeaf(ha.ConjP)
					cp.Shape = finalizeLeaf(cp.ShapeP)
					cp.Conj = finalizeConj(cp.ConjP)
					if strings.Contains(cp.Shape, "<error>") && strings.Contains(cp.Shape, "nil") {
						cp.Shape = "err"
					}
					// a value computed by a call at the call site and tested inside the helper (`h := f.Size(); ok(xs, h)`
					// with `len(x) != h` in ok) is still a test of that call's result
					for _, m := range leafTokenRe.FindAllStringSubmatch(ha.ShapeP, -1) {
						var arg ast.Expr
						if m[1] == "$recv" {
							if sel, ok := ast.Unparen(c.Fun).(*ast.SelectorExpr); ok {
								arg = sel.X
							}
						} else if i := int(m[1][1] - '0'); i >= 0 && i < len(c.Args) {
							arg = c.Args[i]
						}
						if arg == nil {
							continue
						}
						var calls []*ast.CallExpr
						a.Unit.rootCalls(arg, c, map[ast.Node]bool{}, 0, &calls)
						for _, rc := range calls {
							if k := a.Unit.calleeKey(rc); k != "" && !containsStr(cp.Callees, k) {
								cp.Callees = append(append([]string{}, cp.Callees...), k)
								if txt := a.Unit.renderCall(rc); txt != "" {
									cp.ExtraArgs = append(append([]extraArg{}, cp.ExtraArgs...), extraArg{text: txt, skip: len(cp.Substs)})
								}
							}
						}
					}
					sort.Strings(cp.Callees)
				}
				// `if !ok(x) { fail }` with `func ok(x) bool { return c(x) }`: the helper's tail check is a guard here
				if ha.Tail && !a.Tail {
					cp.Tail = false
				}
				if !a.Must {
					if cc := a.Unit.condContext(c); cc != "" {
						if cp.CtxOuter != "" {
							cp.CtxOuter = cc + "," + cp.CtxOuter
						} else {
							cp.CtxOuter = cc
						}
					}
				}
				out = append(out, &cp)
			}
		}
	}
	if depth == 0 {
		g.flat[fd] = out
	}
	return out
}

// Inventory is the multiset of atom signatures of a function.
type Inventory map[string]*InvCount

type InvCount struct {
	Total int      `json:"n"`
	Must  int      `json:"must"`
	Args  []string `json:"args,omitempty"` // operand shapes of each occurrence (sorted)
	Tags  []string `json:"tags,omitempty"` // blame-tag value shapes found in the failure branch (sorted)
}

func (g *GuardEngine) InventoryOf(fd *FuncDecl) Inventory {
	inv := Inventory{}
	for _, a := range g.FlatAtoms(fd) {
		s := a.Sig()
		c := inv[s]
		if c == nil {
			c = &InvCount{}
			inv[s] = c
		}
		c.Total++
		if a.Must {
			c.Must++
		}
		if as := a.ArgSig(); as != "" {
			c.Args = append(c.Args, as)
		}
		tags := a.BlameTags()
		for i := range tags {
			tags[i] = applySubsts(tags[i], a.Substs)
		}
		if len(tags) == 0 {
			tags = a.ViaTags
		}
		for _, t := range tags {
			c.Tags = append(c.Tags, t)
		}
	}
	// standalone blame-tag sites (also those not inside a failure branch, e.g. accumulated aborts)
	for _, t := range g.flatTagSites(fd, map[*FuncDecl]bool{}, 0) {
		{
			k := "blame-tag " + t
			c := inv[k]
			if c == nil {
				c = &InvCount{}
				inv[k] = c
			}
			c.Total++
		}
	}
	for _, c := range inv {
		sort.Strings(c.Args)
		sort.Strings(c.Tags)
	}
	return inv
}

// enclosingIfs returns the if statements (innermost first) whose then/else branch contains n,
// stopping at the nearest enclosing loop or function literal.
func (u *Unit) enclosingIfs(n ast.Node) []*ast.IfStmt { return u.enclosingIfsOpt(n, true) }

// enclosingIfsOpt: stopAtLoop=false walks up to the function (or literal) boundary.
func (u *Unit) enclosingIfsOpt(n ast.Node, stopAtLoop bool) []*ast.IfStmt {
	var path []ast.Node
	var found []ast.Node
	ast.Inspect(u.Body, func(x ast.Node) bool {
		if found != nil {
			return false
		}
		if x == nil {
			path = path[:len(path)-1]
			return true
		}
		path = append(path, x)
		if x == n {
			found = append([]ast.Node{}, path...)
			return false
		}
		return true
	})
	var out []*ast.IfStmt
	for i := len(found) - 2; i >= 0; i-- {
		switch p := found[i].(type) {
		case *ast.FuncLit:
			return out
		case *ast.ForStmt, *ast.RangeStmt:
			if stopAtLoop {
				return out
			}
		case *ast.IfStmt:
			child := found[i+1]
			if child == ast.Node(p.Body) || (p.Else != nil && child == p.Else) {
				out = append(out, p)
			}
		}
	}
	return out
}

// isNewFunc: an exported in-module function that no frozen reference knows was introduced after the
// references were taken; it is treated like a private helper (inlined), so that extracting code into a
// new exported function does not change the inventories of its callers.
func (g *GuardEngine) isNewFunc(f *types.Func) bool {
	if g.known == nil {
		return false
	}
	return !g.known[FuncKey(f)]
}

// paramSubst maps the parameter tokens of an inlined helper ($0, $1, …, $recv) to the shapes of the
// arguments at the call site.
type paramSubst map[string]string

func newParamSubst(u *Unit, c *ast.CallExpr) paramSubst {
	ps := paramSubst{}
	variadic := -1
	if f, ok := typeutil.Callee(u.Info, c).(*types.Func); ok {
		if sig := f.Type().(*types.Signature); sig.Variadic() && !c.Ellipsis.IsValid() {
			variadic = sig.Params().Len() - 1
		}
	}
	for i, a := range c.Args {
		if i > 9 {
			break
		}
		if variadic >= 0 && i > variadic {
			// `parts...` inside the helper stands for all the trailing arguments
			ps["$"+itoa(variadic)] += "," + u.argShape(a, c, 1)
			continue
		}
		ps["$"+itoa(i)] = u.argShape(a, c, 1)
	}
	if sel, ok := ast.Unparen(c.Fun).(*ast.SelectorExpr); ok {
		if f, ok := typeutil.Callee(u.Info, c).(*types.Func); ok && f.Type().(*types.Signature).Recv() != nil {
			ps["$recv"] = u.argShape(sel.X, c, 1)
		}
	}
	return ps
}

// newLeafSubst maps the helper's parameters to the call-site arguments rendered like leaf operands.
func newLeafSubst(u *Unit, c *ast.CallExpr) paramSubst {
	ps := paramSubst{}
	u.leafMode = true
	defer func() { u.leafMode = false }()
	// only operands that are a parameter, a field or a constant are substituted (anything computed stays a
	// type, as a local holding it would)
	simple := func(a ast.Expr) string {
		sh := u.condOperand(a)
		if strings.HasPrefix(sh, "⟦") && strings.HasSuffix(sh, "⟧") && strings.Count(sh, "⟦") == 1 {
			return sh
		}
		if strings.HasPrefix(sh, ".") && !strings.ContainsAny(sh[1:], ".+-*/%&|^<>()[] ") {
			return sh
		}
		if tv, ok := u.Info.Types[ast.Unparen(a)]; ok && tv.Value != nil {
			return sh
		}
		return ""
	}
	for i, a := range c.Args {
		if i > 9 {
			break
		}
		ps["$"+itoa(i)] = simple(a)
	}
	if sel, ok := ast.Unparen(c.Fun).(*ast.SelectorExpr); ok {
		if f, ok := typeutil.Callee(u.Info, c).(*types.Func); ok && f.Type().(*types.Signature).Recv() != nil {
			ps["$recv"] = simple(sel.X)
		}
	}
	return ps
}

var leafTokenRe = regexp.MustCompile(`⟦(\$(?:recv|\d))\|([^⟧]*)⟧`)

func (ps paramSubst) applyLeaf(s string) string {
	if !strings.Contains(s, "⟦") {
		return s
	}
	return leafTokenRe.ReplaceAllStringFunc(s, func(tok string) string {
		m := leafTokenRe.FindStringSubmatch(tok)
		if v, ok := ps[m[1]]; ok && v != "" {
			return v
		}
		return tok
	})
}

// finalizeLeaf: parameters of the function whose inventory this is are rendered by their type.
func finalizeLeaf(s string) string {
	s = leafTokenRe.ReplaceAllString(s, "$2")
	for _, op := range []string{"==", "!="} {
		if i := strings.Index(s, "⟪"+op+"⟫"); i >= 0 {
			l, r := s[:i], s[i+len("⟪"+op+"⟫"):]
			if l > r {
				l, r = r, l
			}
			s = l + op + r
		}
	}
	return s
}

// finalizeConj: the sibling leaves of a conjunctive guard, each finalised, in canonical order.
func finalizeConj(s string) string {
	if s == "" {
		return ""
	}
	parts := strings.Split(s, "\x00")
	for i := range parts {
		parts[i] = finalizeLeaf(parts[i])
	}
	sort.Strings(parts)
	return "&&(" + strings.Join(parts, ",") + ")"
}

var paramTokenRe = regexp.MustCompile(`\$(recv|lit\d|\d)`)

func (ps paramSubst) apply(s string) string {
	if len(ps) == 0 || !strings.Contains(s, "$") {
		return s
	}
	return paramTokenRe.ReplaceAllStringFunc(s, func(tok string) string {
		if v, ok := ps[tok]; ok {
			return v
		}
		return tok
	})
}

func applySubsts(s string, ss []paramSubst) string {
	for _, ps := range ss {
		s = ps.apply(s)
	}
	return s
}

// flatTagSites: blame-tag value shapes of fd and of the private helpers it calls (with parameters
// substituted by the call-site arguments).
func (g *GuardEngine) flatTagSites(fd *FuncDecl, onPath map[*FuncDecl]bool, depth int) []string {
	if onPath[fd] || depth > 8 {
		return nil
	}
	onPath[fd] = true
	defer delete(onPath, fd)
	var out []string
	for _, u := range g.unitsOf(fd) {
		out = append(out, u.tagSites()...)
		ast.Inspect(u.Body, func(n ast.Node) bool {
			if lit, ok := n.(*ast.FuncLit); ok && lit != u.Lit {
				return false
			}
			c, ok := n.(*ast.CallExpr)
			if !ok {
				return true
			}
			f := typeutil.StaticCallee(u.Info, c)
			if f == nil || !InModule(f) {
				return true
			}
			f = f.Origin()
			if f.Exported() && !g.isNewFunc(f) {
				return true
			}
			hd := g.prog.Funcs[f]
			if hd == nil {
				return true
			}
			ps := newParamSubst(u, c)
			for _, t := range g.flatTagSites(hd, onPath, depth+1) {
				out = append(out, ps.apply(t))
			}
			return true
		})
	}
	return out
}
