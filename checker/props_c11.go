package main

import (
	"fmt"
	"go/ast"
	"go/token"
	"go/types"
	"sort"
	"strings"

	"golang.org/x/tools/go/cfg"
	"golang.org/x/tools/go/types/typeutil"
)

// ---- C11: routing, broadcast consistency, runners ----

func checkC11(r *Run) {
	genericGuards(r)
	la := NewLockAnalysis(r, "pkg/network")
	if la == nil || la.mutex == nil {
		r.FailKind("anchor-unresolved", "C11.L1", "mutex", "no mutex-guarded struct found in pkg/network")
		return
	}
	la.analyse()
	la.Report("C11")
	checkWakeups(r, la)
	checkRouting(r, la)
	checkLoopFlags(r, "C11.G8", Scope{Include: []string{"pkg/network/"}})
	checkRunnerCorrelationIDs(r)
}

// waiterInfo describes the function that blocks in `for { lock; scan; unlock; select{...} }`.
type waiterInfo struct {
	fd       *FuncDecl
	sel      *ast.SelectStmt
	loop     *ast.ForStmt
	chans    map[*types.Var]bool // channel fields the waiter selects on (directly or through a local alias)
	reads    map[*types.Var]bool // guarded fields read inside the loop
	notifyOK bool
	group    map[*FuncDecl]bool // the waiter and the unexported helpers only it (transitively) calls
}

// waiterGroup: the waiter plus every unexported function of the package all of whose in-package call
// sites lie in the group (a locked scan extracted into a helper stays part of the waiter).
func waiterGroup(la *LockAnalysis, w *FuncDecl) map[*FuncDecl]bool {
	callers := map[*types.Func]map[*FuncDecl]bool{}
	for _, fd := range la.funcs {
		info := fd.Pkg.TypesInfo
		ast.Inspect(fd.Decl.Body, func(n ast.Node) bool {
			switch x := n.(type) {
			case *ast.GoStmt: // a goroutine started by the waiter is not part of it
				if f := typeutil.StaticCallee(info, x.Call); f != nil {
					if callers[f.Origin()] == nil {
						callers[f.Origin()] = map[*FuncDecl]bool{}
					}
					callers[f.Origin()][nil] = true
				}
			case *ast.CallExpr:
				if f := typeutil.StaticCallee(info, x); f != nil {
					if callers[f.Origin()] == nil {
						callers[f.Origin()] = map[*FuncDecl]bool{}
					}
					callers[f.Origin()][fd] = true
				}
			case *ast.SelectorExpr: // method value
				if f, ok := info.Uses[x.Sel].(*types.Func); ok {
					if callers[f.Origin()] == nil {
						callers[f.Origin()] = map[*FuncDecl]bool{}
					}
					callers[f.Origin()][fd] = true
				}
			}
			return true
		})
	}
	group := map[*FuncDecl]bool{w: true}
	for changed := true; changed; {
		changed = false
		for _, fd := range la.funcs {
			if group[fd] || fd.Obj.Exported() || len(callers[fd.Obj]) == 0 {
				continue
			}
			all := true
			for c := range callers[fd.Obj] {
				if !group[c] && c != fd {
					all = false
				}
			}
			if all {
				group[fd] = true
				changed = true
			}
		}
	}
	return group
}

func findWaiter(la *LockAnalysis) *waiterInfo {
	for _, fd := range la.funcs {
		info := fd.Pkg.TypesInfo
		var w *waiterInfo
		ast.Inspect(fd.Decl.Body, func(n ast.Node) bool {
			loop, ok := n.(*ast.ForStmt)
			if !ok || w != nil {
				return true
			}
			ast.Inspect(loop.Body, func(m ast.Node) bool {
				if s, ok := m.(*ast.SelectStmt); ok && !selectHasDefault(s) && w == nil {
					w = &waiterInfo{fd: fd, sel: s, loop: loop, chans: map[*types.Var]bool{}, reads: map[*types.Var]bool{}}
				}
				return true
			})
			return true
		})
		if w == nil {
			continue
		}
		// channels: each comm clause `<-X`
		alias := map[*types.Var]*types.Var{} // local -> field it was stored to
		ast.Inspect(fd.Decl.Body, func(n ast.Node) bool {
			as, ok := n.(*ast.AssignStmt)
			if !ok || len(as.Lhs) != len(as.Rhs) {
				return true
			}
			for i, l := range as.Lhs {
				sel, ok := ast.Unparen(l).(*ast.SelectorExpr)
				if !ok {
					continue
				}
				fv, ok := info.Uses[sel.Sel].(*types.Var)
				if !ok || !fv.IsField() || !isChanType(fv.Type()) {
					continue
				}
				if id := identOf(as.Rhs[i]); id != nil {
					if lv, ok := info.Uses[id].(*types.Var); ok {
						alias[lv] = fv
					}
				}
			}
			return true
		})
		for _, c := range w.sel.Body.List {
			cc := c.(*ast.CommClause)
			if cc.Comm == nil {
				continue
			}
			ast.Inspect(cc.Comm, func(n ast.Node) bool {
				ue, ok := n.(*ast.UnaryExpr)
				if !ok || ue.Op != token.ARROW {
					return true
				}
				switch x := ast.Unparen(ue.X).(type) {
				case *ast.Ident:
					if lv, ok := info.Uses[x].(*types.Var); ok && alias[lv] != nil {
						w.chans[alias[lv]] = true
					}
				case *ast.SelectorExpr:
					if fv, ok := info.Uses[x.Sel].(*types.Var); ok && fv.IsField() {
						w.chans[fv] = true
					}
				}
				return true
			})
		}
		w.group = waiterGroup(la, fd)
		for g := range w.group {
			var body ast.Node = g.Decl.Body
			if g == fd {
				body = w.loop.Body
			}
			ginfo := g.Pkg.TypesInfo
			ast.Inspect(body, func(n ast.Node) bool {
				if sel, ok := n.(*ast.SelectorExpr); ok {
					if v, ok := ginfo.Uses[sel.Sel].(*types.Var); ok && la.guarded[v] != "" {
						w.reads[v] = true
					}
				}
				return true
			})
		}
		return w
	}
	return nil
}

// checkWakeups: L4 (every store the waiter's scan can observe is followed by a wake-up before the
// lock is released) and L5 (waiter structure).
func checkWakeups(r *Run, la *LockAnalysis) {
	p := r.Prog
	r.Rule("C11.L4", "wake-up pairing: in every function other than the waiter, each store to a field the waiter's locked scan reads is followed on every path to the unlock/exit by a wake-up (non-blocking send on / close of a channel the waiter selects on)")
	r.Rule("C11.L5", "waiter structure: the blocking select sits in a for loop that re-acquires the lock and re-scans; the notify channel has constant capacity >= 1; the wake-up send has a default case; the waiter detaches its channel on exit")
	w := findWaiter(la)
	if w == nil {
		r.FailKind("anchor-unresolved", "C11.L5", "waiter", "no function with a blocking select inside a for loop found in pkg/network")
		return
	}
	info := w.fd.Pkg.TypesInfo
	wname := FuncKey(w.fd.Obj)
	r.Check(len(w.chans) >= 2, "C11.L5", wname+" :: select channels", p.RelPos(w.sel.Pos()), fmt.Sprintf("waiter selects on %d channel fields (notify + failure latch expected)", len(w.chans)))
	// loop body starts by locking
	lockFirst := false
	if len(w.loop.Body.List) > 0 {
		if es, ok := w.loop.Body.List[0].(*ast.ExprStmt); ok {
			if c, ok := es.X.(*ast.CallExpr); ok && la.mutexCall(info, c) == "Lock" {
				lockFirst = true
			}
		}
	}
	r.Check(lockFirst && w.loop.Cond == nil, "C11.L5", wname+" :: rescan", p.RelPos(w.loop.Pos()), "the waiter loop re-acquires the lock and re-scans before every wait")
	// select is the last statement of the loop body (after the unlocked scan)
	r.Check(len(w.loop.Body.List) > 0 && w.loop.Body.List[len(w.loop.Body.List)-1] == ast.Stmt(w.sel), "C11.L5", wname+" :: wait-last", p.RelPos(w.sel.Pos()), "the blocking select is the last statement of the loop body, so every wake-up leads to a re-scan")
	// notify capacity and detach
	for ch := range w.chans {
		if !isGuardedElem(la, ch) {
			continue
		}
		capOK, detach := false, false
		ast.Inspect(w.fd.Decl.Body, func(n ast.Node) bool {
			switch x := n.(type) {
			case *ast.CallExpr:
				if id, ok := ast.Unparen(x.Fun).(*ast.Ident); ok {
					if b, ok := info.Uses[id].(*types.Builtin); ok && b.Name() == "make" && len(x.Args) == 2 && isChanType(info.TypeOf(x)) {
						if v, ok := constInt(info, x.Args[1]); ok && v >= 1 {
							capOK = true
						}
					}
				}
			case *ast.AssignStmt:
				for i, l := range x.Lhs {
					if sel, ok := ast.Unparen(l).(*ast.SelectorExpr); ok && info.Uses[sel.Sel] == ch && i < len(x.Rhs) && isNilIdent(info, x.Rhs[i]) {
						// must be inside a deferred literal
						detach = insideDefer(w.fd.Decl.Body, x)
					}
				}
			}
			return true
		})
		r.Check(capOK, "C11.L5", wname+" :: "+ch.Name()+" capacity", p.RelPos(w.fd.Decl.Pos()), "the wake-up channel is created with a constant capacity >= 1 (a wake-up sent while the waiter scans is not lost)")
		r.Check(detach, "C11.L5", wname+" :: "+ch.Name()+" detach", p.RelPos(w.fd.Decl.Pos()), "the waiter detaches its wake-up channel in a deferred function on every exit")
	}
	// wake functions
	wake := map[*types.Func]bool{}
	for _, fd := range la.funcs {
		finfo := fd.Pkg.TypesInfo
		ast.Inspect(fd.Decl.Body, func(n ast.Node) bool {
			if isWakeOp(finfo, n, w.chans) {
				wake[fd.Obj] = true
				// the send must be non-blocking
				if ss, ok := n.(*ast.SendStmt); ok {
					r.Check(inNonBlockingSelect(fd.Decl.Body, ss) && sendSelectHasDefault(fd.Decl.Body, ss), "C11.L5", FuncKey(fd.Obj)+" :: non-blocking wake", p.RelPos(ss.Pos()), "the wake-up send is a select case with a default (the reader never blocks on a waiter)")
				}
			}
			return true
		})
	}
	// stores
	nStores := 0
	for _, fd := range la.funcs {
		if w.group[fd] {
			continue
		}
		u := la.units[fd]
		if u == nil {
			continue
		}
		finfo := fd.Pkg.TypesInfo
		for _, b := range u.g.Blocks {
			if !b.Live {
				continue
			}
			for i, n := range b.Nodes {
				for _, f := range storedFields(finfo, n) {
					if !w.reads[f] {
						continue
					}
					nStores++
					ok, witness := wakeFollows(la, finfo, u, b, i, w.chans, wake)
					key := FuncKey(fd.Obj) + " :: store " + f.Name()
					if ok {
						r.Pass("C11.L4", key, p.RelPos(n.Pos()), "followed by a wake-up on every path to the unlock")
					} else {
						r.Fail("C11.L4", key, p.RelPos(n.Pos()), "store to "+f.Name()+" (read by the waiter's scan) can reach "+witness+" without a wake-up: a blocked receive is not woken (lost wake-up)")
					}
				}
			}
		}
	}
	r.RequireCount("C11.L4", "stores to waiter-read fields", nStores, 4)
}

func isGuardedElem(la *LockAnalysis, v *types.Var) bool {
	return strings.HasPrefix(la.guarded[v], "element of")
}

func insideDefer(body *ast.BlockStmt, n ast.Node) bool {
	res := false
	ast.Inspect(body, func(x ast.Node) bool {
		if d, ok := x.(*ast.DeferStmt); ok && d.Pos() <= n.Pos() && n.End() <= d.End() {
			res = true
		}
		return true
	})
	return res
}

func sendSelectHasDefault(body *ast.BlockStmt, op ast.Node) bool {
	res := false
	ast.Inspect(body, func(n ast.Node) bool {
		s, ok := n.(*ast.SelectStmt)
		if !ok {
			return true
		}
		for _, c := range s.Body.List {
			cc := c.(*ast.CommClause)
			if cc.Comm != nil && cc.Comm.Pos() <= op.Pos() && op.End() <= cc.Comm.End() && selectHasDefault(s) {
				res = true
			}
		}
		return true
	})
	return res
}

// isWakeOp: send on / close of one of the waiter's channel fields.
func isWakeOp(info *types.Info, n ast.Node, chans map[*types.Var]bool) bool {
	isCh := func(e ast.Expr) bool {
		if sel, ok := ast.Unparen(e).(*ast.SelectorExpr); ok {
			if v, ok := info.Uses[sel.Sel].(*types.Var); ok && chans[v] {
				return true
			}
		}
		return false
	}
	switch x := n.(type) {
	case *ast.SendStmt:
		return isCh(x.Chan)
	case *ast.CallExpr:
		if id, ok := ast.Unparen(x.Fun).(*ast.Ident); ok {
			if b, ok := info.Uses[id].(*types.Builtin); ok && b.Name() == "close" && len(x.Args) == 1 {
				return isCh(x.Args[0])
			}
		}
	}
	return false
}

// storedFields lists guarded-struct fields written by a CFG node (assignment, inc/dec, delete).
func storedFields(info *types.Info, n ast.Node) []*types.Var {
	var out []*types.Var
	add := func(e ast.Expr) {
		if sel, ok := baseSelector(e).(*ast.SelectorExpr); ok {
			if v, ok := info.Uses[sel.Sel].(*types.Var); ok && v.IsField() {
				out = append(out, v)
			}
		}
	}
	switch s := n.(type) {
	case *ast.AssignStmt:
		for _, l := range s.Lhs {
			add(l)
		}
	case *ast.IncDecStmt:
		add(s.X)
	case *ast.ExprStmt:
		if c, ok := s.X.(*ast.CallExpr); ok {
			if id, ok := ast.Unparen(c.Fun).(*ast.Ident); ok {
				if b, ok := info.Uses[id].(*types.Builtin); ok && b.Name() == "delete" && len(c.Args) > 0 {
					add(c.Args[0])
				}
			}
		}
	}
	return out
}

// wakeFollows: every path from (b, i) to an Unlock / function exit passes a wake operation or a call
// to a wake function.
func wakeFollows(la *LockAnalysis, info *types.Info, u *lockUnit, b *cfg.Block, i int, chans map[*types.Var]bool, wake map[*types.Func]bool) (bool, string) {
	type st struct {
		b *cfg.Block
		i int
	}
	seen := map[*cfg.Block]bool{}
	var walk func(b *cfg.Block, from int) (bool, string)
	walk = func(b *cfg.Block, from int) (bool, string) {
		for j := from; j < len(b.Nodes); j++ {
			n := b.Nodes[j]
			woke, unlocked := false, false
			ast.Inspect(n, func(x ast.Node) bool {
				if _, ok := x.(*ast.FuncLit); ok {
					return false
				}
				if isWakeOp(info, x, chans) {
					woke = true
				}
				if c, ok := x.(*ast.CallExpr); ok {
					if f := typeutil.StaticCallee(info, c); f != nil && wake[f.Origin()] {
						woke = true
					}
					if la.mutexCall(info, c) == "Unlock" {
						if _, isDefer := n.(*ast.DeferStmt); !isDefer {
							unlocked = true
						}
					}
				}
				return true
			})
			if woke {
				return true, ""
			}
			if unlocked {
				return false, "the unlock at " + la.r.Prog.RelPos(n.Pos())
			}
			if ret, ok := n.(*ast.ReturnStmt); ok {
				return false, "the return at " + la.r.Prog.RelPos(ret.Pos())
			}
		}
		if len(b.Succs) == 0 {
			return false, "the end of the function"
		}
		for _, s := range b.Succs {
			if seen[s] {
				continue
			}
			seen[s] = true
			if ok, w := walk(s, 0); !ok {
				return false, w
			}
		}
		return true, ""
	}
	_ = st{}
	return walk(b, i+1)
}

// checkRouting: T1 (routing key is the transport-authenticated sender; membership filter dominates
// deposit; mailbox key is the correlation id) and the buffer-accounting pairing.
func checkRouting(r *Run, la *LockAnalysis) {
	p := r.Prog
	r.Rule("C11.T1", "routing key: the sender under which a payload is filed is the first result of Delivery.Receive (never a peer-controlled field), the mailbox is selected by the message's correlation id, the quorum-membership filter precedes filing, and a receive reads only the requested senders' slots")
	r.Rule("C11.A1", "buffer accounting: the buffered-message counter is incremented exactly where a new payload is stored (same straight-line region) and decremented exactly where payloads are removed, so absorbed duplicates are never counted")
	// find the reader loop: function calling Delivery.Receive
	var reader *FuncDecl
	var recvCall *ast.CallExpr
	for _, fd := range la.funcs {
		info := fd.Pkg.TypesInfo
		ast.Inspect(fd.Decl.Body, func(n ast.Node) bool {
			if c, ok := n.(*ast.CallExpr); ok && la.blockingCallee(info, c) == "Delivery.Receive" {
				reader, recvCall = fd, c
			}
			return true
		})
	}
	if reader == nil {
		r.FailKind("anchor-unresolved", "C11.T1", "reader", "no function calling Delivery.Receive in pkg/network")
		return
	}
	u := r.G.UnitOf(reader)
	info := reader.Pkg.TypesInfo
	// the payload store: a function (other than the waiter) assigning X.payloads[k] = v where payloads is a guarded map keyed by sharing.ID
	var depositFd *FuncDecl
	var storeStmt *ast.AssignStmt
	var payloadField *types.Var
	for _, fd := range la.funcs {
		finfo := fd.Pkg.TypesInfo
		ast.Inspect(fd.Decl.Body, func(n ast.Node) bool {
			as, ok := n.(*ast.AssignStmt)
			if !ok || len(as.Lhs) != 1 {
				return true
			}
			ix, ok := ast.Unparen(as.Lhs[0]).(*ast.IndexExpr)
			if !ok {
				return true
			}
			sel, ok := ast.Unparen(ix.X).(*ast.SelectorExpr)
			if !ok {
				return true
			}
			fv, ok := finfo.Uses[sel.Sel].(*types.Var)
			if !ok || la.guarded[fv] == "" {
				return true
			}
			if m, ok := fv.Type().Underlying().(*types.Map); ok && isSharingID(m.Key()) {
				if sl, ok := m.Elem().Underlying().(*types.Slice); ok {
					if bt, ok := sl.Elem().(*types.Basic); ok && bt.Kind() == types.Byte {
						depositFd, storeStmt, payloadField = fd, as, fv
					}
				}
			}
			return true
		})
	}
	if depositFd == nil {
		r.FailKind("anchor-unresolved", "C11.T1", "deposit", "no function storing into a guarded map[sharing.ID][]byte found")
		return
	}
	du := r.G.UnitOf(depositFd)
	dinfo := depositFd.Pkg.TypesInfo
	// (a) call of deposit in reader: argument bound to the key parameter has shape Receive()#0
	ix := ast.Unparen(storeStmt.Lhs[0]).(*ast.IndexExpr)
	keyShape := du.argShape(ix.Index, storeStmt, 0)
	r.Check(strings.HasPrefix(keyShape, "$"), "C11.T1", FuncKey(depositFd.Obj)+" :: slot key", p.RelPos(storeStmt.Pos()), "payload slot is keyed by `"+keyShape+"` (must be the sender parameter, not a message field)")
	valShape := du.argShape(storeStmt.Rhs[0], storeStmt, 0)
	r.Check(strings.Contains(valShape, ".Payload"), "C11.T1", FuncKey(depositFd.Obj)+" :: slot value", p.RelPos(storeStmt.Pos()), "stored value is `"+valShape+"`")
	// mailbox selected by correlation id
	boxShape := du.argShape(ix.X, storeStmt, 0)
	_ = boxShape
	corrOK := false
	ast.Inspect(depositFd.Decl.Body, func(n ast.Node) bool {
		if c, ok := n.(*ast.CallExpr); ok {
			if f := typeutil.StaticCallee(dinfo, c); f != nil && la.requires[f.Origin()] && len(c.Args) == 1 {
				if sh := du.argShape(c.Args[0], c, 0); sh == ".CorrelationID" {
					corrOK = true
				}
			}
		}
		return true
	})
	r.Check(corrOK, "C11.T1", FuncKey(depositFd.Obj)+" :: mailbox key", p.RelPos(depositFd.Decl.Pos()), "the mailbox is selected by the message's CorrelationID field unchanged")
	var depCall *ast.CallExpr
	ast.Inspect(reader.Decl.Body, func(n ast.Node) bool {
		if c, ok := n.(*ast.CallExpr); ok {
			if f := typeutil.StaticCallee(info, c); f != nil && f.Origin() == depositFd.Obj {
				depCall = c
			}
		}
		return true
	})
	if depCall == nil {
		r.Fail("C11.T1", FuncKey(reader.Obj)+" :: files via deposit", p.RelPos(reader.Decl.Pos()), "the reader loop no longer files messages through "+depositFd.Obj.Name())
	} else {
		// which argument is the slot key parameter?
		idx := int(keyShape[len(keyShape)-1] - '0')
		if idx < len(depCall.Args) {
			sh := u.argShape(depCall.Args[idx], depCall, 0)
			r.Check(strings.HasSuffix(sh, "Receive()#0"), "C11.T1", FuncKey(reader.Obj)+" :: sender origin", p.RelPos(depCall.Pos()), "sender passed to "+depositFd.Obj.Name()+" is `"+sh+"` (must be the first result of Delivery.Receive)")
		}
		// membership filter: a skip/guard atom calling Contains on the quorum set with the same sender dominates the deposit call
		found := false
		for _, a := range u.Atoms {
			for _, c := range a.Calls {
				if f, _ := typeutil.Callee(info, c).(*types.Func); f != nil && f.Name() == "Contains" && len(c.Args) == 1 {
					if strings.HasSuffix(u.argShape(c.Args[0], c, 0), "Receive()#0") && strings.Contains(u.argShape(ast.Unparen(c.Fun).(*ast.SelectorExpr).X, c, 0), "quorum") {
						if a.Block != nil && u.Dominates(a.Block, u.BlockOf(depCall)) {
							found = true
						}
					}
				}
			}
		}
		r.Check(found, "C11.T1", FuncKey(reader.Obj)+" :: membership filter", p.RelPos(depCall.Pos()), "a quorum-membership test of the transport sender dominates the filing of the message")
		_ = recvCall
	}
	// receive reads only requested senders' slots: every read index of payloads in the waiter is a range variable over the expected set
	if w := findWaiter(la); w != nil {
		n := 0
		var group []*FuncDecl
		for g := range w.group {
			group = append(group, g)
		}
		sort.Slice(group, func(i, j int) bool { return group[i].Decl.Pos() < group[j].Decl.Pos() })
		for _, g := range group {
			wu := r.G.UnitOf(g)
			winfo := g.Pkg.TypesInfo
			ast.Inspect(g.Decl.Body, func(x ast.Node) bool {
				ie, ok := x.(*ast.IndexExpr)
				if !ok {
					return true
				}
				sel, ok := ast.Unparen(ie.X).(*ast.SelectorExpr)
				if !ok || winfo.Uses[sel.Sel] != payloadField {
					return true
				}
				n++
				sh := wu.argShape(ie.Index, ie, 0)
				r.Check(strings.HasPrefix(sh, "key(") && !strings.Contains(sh, payloadField.Name()), "C11.T1", FuncKey(w.fd.Obj)+" :: slot read", p.RelPos(ie.Pos()), "payload slot read with key `"+sh+"` (must be a range variable over the requested sender set, not over the mailbox)")
				return true
			})
		}
		r.RequireCount("C11.T1", "slot reads in waiter", n, 1)
	}
	// A1: accounting
	var counter *types.Var
	for f := range la.guarded {
		if b, ok := f.Type().(*types.Basic); ok && b.Info()&types.IsInteger != 0 {
			counter = f
		}
	}
	if counter == nil {
		r.FailKind("anchor-unresolved", "C11.A1", "counter", "no guarded integer counter found")
		return
	}
	nInc := 0
	for _, fd := range la.funcs {
		finfo := fd.Pkg.TypesInfo
		lu := la.units[fd]
		if lu == nil {
			continue
		}
		for _, b := range lu.g.Blocks {
			if !b.Live {
				continue
			}
			inc, dec, store, del := false, false, false, false
			var at ast.Node
			for _, n := range b.Nodes {
				switch s := n.(type) {
				case *ast.IncDecStmt:
					if sel, ok := ast.Unparen(s.X).(*ast.SelectorExpr); ok && finfo.Uses[sel.Sel] == counter {
						if s.Tok == token.INC {
							inc = true
						} else {
							dec = true
						}
						at = n
					}
				case *ast.AssignStmt:
					if len(s.Lhs) == 1 {
						if sel, ok := ast.Unparen(s.Lhs[0]).(*ast.SelectorExpr); ok && finfo.Uses[sel.Sel] == counter {
							if s.Tok == token.ADD_ASSIGN {
								inc = true
							} else if s.Tok == token.SUB_ASSIGN {
								dec = true
							} else if s.Tok == token.ASSIGN {
								inc, dec = true, true
							}
							at = n
						}
					}
				}
				for _, f := range storedFields(finfo, n) {
					if f == payloadField {
						if es, ok := n.(*ast.ExprStmt); ok {
							_ = es
							del = true
						} else {
							store = true
						}
						if at == nil {
							at = n
						}
					}
				}
			}
			// deletes inside a loop body directly preceding the decrement count as "removed here"
			if dec && !del {
				del = deleteLoopPrecedes(finfo, fd, at, payloadField)
			}
			if inc || store {
				nInc++
				r.Check(inc && store && !dec, "C11.A1", FuncKey(fd.Obj)+" :: increment", p.RelPos(at.Pos()), fmt.Sprintf("counter increment=%v and payload store=%v must occur in the same straight-line region", inc, store))
			}
			if dec && !inc {
				nInc++
				r.Check(del, "C11.A1", FuncKey(fd.Obj)+" :: decrement", p.RelPos(at.Pos()), "counter decrement must accompany the removal of the delivered payloads")
			}
		}
	}
	r.RequireCount("C11.A1", "accounting sites", nInc, 2)
}

// deleteLoopPrecedes: the statement right before `at` in its statement list is a range loop whose body deletes from field.
func deleteLoopPrecedes(info *types.Info, fd *FuncDecl, at ast.Node, field *types.Var) bool {
	res := false
	ast.Inspect(fd.Decl.Body, func(n ast.Node) bool {
		bs, ok := n.(*ast.BlockStmt)
		if !ok {
			return true
		}
		for i, s := range bs.List {
			if ast.Node(s) != at {
				continue
			}
			// the removal loop directly precedes or follows the decrement in the same statement list
			for _, j := range []int{i - 1, i + 1} {
				if j < 0 || j >= len(bs.List) {
					continue
				}
				if rs, ok := bs.List[j].(*ast.RangeStmt); ok {
					ast.Inspect(rs.Body, func(m ast.Node) bool {
						if es, ok := m.(*ast.ExprStmt); ok {
							for _, f := range storedFields(info, es) {
								if f == field {
									res = true
								}
							}
						}
						return true
					})
				}
			}
		}
		return true
	})
	return res
}

// checkRunnerCorrelationIDs: within one runner every exchange uses a different constant correlation id
// that contains no namespace separator.
func checkRunnerCorrelationIDs(r *Run) {
	r.Rule("C11.S2", "runner correlation ids: inside one Run method the correlation ids passed to the exchange functions are compile-time constants, pairwise distinct, and contain no \"/\" (Namespaced relies on it)")
	n := 0
	for _, fd := range r.Prog.FuncsIn(Scope{Include: []string{"pkg/"}}) {
		if fd.Obj.Name() != "Run" || fd.Decl.Recv == nil {
			continue
		}
		seen := map[string]bool{}
		sites := 0
		bad := ""
		for _, op := range r.callSeqOf(fd) {
			if !strings.HasPrefix(op, "pkg/network/exchange.") && !strings.HasPrefix(op, "pkg/network.SendUnicast") && !strings.HasPrefix(op, "pkg/network.ReceiveUnicast") {
				continue
			}
			i := strings.IndexByte(op, '(')
			if i < 0 {
				bad = "exchange call without a constant correlation id: " + op
				sites++
				continue
			}
			sites++
			id := op[i:]
			kind := op[:i]
			// the exchange layer appends "BROADCAST:" / "UNICAST:" to the id, so a broadcast and a unicast
			// exchange may share it; a send and its matching receive legitimately share one too
			classes := []string{}
			switch {
			case strings.Contains(kind, "BroadcastExchange"):
				classes = []string{"B"}
			case strings.Contains(kind, "UnicastExchange"):
				classes = []string{"Us", "Ur"}
			case strings.Contains(kind, "SendUnicast") || strings.Contains(kind, "UnicastSend"):
				classes = []string{"Us"}
			case strings.Contains(kind, "ReceiveUnicast") || strings.Contains(kind, "UnicastReceive"):
				classes = []string{"Ur"}
			default: // exchange.Exchange: both
				classes = []string{"B", "Us", "Ur"}
			}
			for _, c := range classes {
				k := c + id
				if seen[k] {
					bad = "correlation id " + id + " is used for two exchanges of the same kind in one runner"
				}
				seen[k] = true
			}
			if strings.Contains(id, "/") {
				bad = "correlation id " + id + " contains the namespace separator"
			}
		}
		if sites == 0 {
			continue
		}
		n++
		r.Check(bad == "", "C11.S2", FuncKey(fd.Obj), r.Prog.RelPos(fd.Decl.Pos()), fmt.Sprintf("%d exchanges %s", sites, bad))
	}
	r.RequireCount("C11.S2", "runners with exchanges", n, 10)
}
