package main

import (
	"fmt"
	"go/ast"
	"go/types"
	"regexp"
	"sort"
	"strings"

	"golang.org/x/tools/go/types/typeutil"
)

// ---- C07: secrets come from each party's own randomness ----

var c07Scope = Scope{Include: []string{"pkg/"}}

// derived readers that are deterministic expansions of values which themselves come from the caller's
// randomness or from public data (each confirmed by reading)
var derivedReaders = map[string]string{
	"DERIVED:pkg/mpc/session.(*Context).Seeds":   "pairwise SHAKE streams agreed in session setup (PRZS zero shares are pseudorandom by design)",
	"DERIVED:golang.org/x/crypto/blake2b.NewXOF": "hash-to-field / key derivation: XOF over the input bytes, not a randomness source",
	"DERIVED:pkg/transcripts/hagrid.cloneShake":  "transcript extraction reads from a forked sponge",
}

// ambient sources tolerated at exactly these sites (function key + callee)
var ambientExempt = map[string]string{
	"pkg/mpc/signatures/ecdsa/dkls23.Aggregate -> pkg/signatures/ecdsa.NewScheme": "scheme is only used to obtain a Verifier; nothing is sampled from it",
	"pkg/signatures/ecdsa.(*Signer).Sign -> crypto/ecdsa.(*PrivateKey).Sign":      "nil reader selects deterministic RFC 6979 signing in the deterministic-suite branch",
}

// stdlib functions that ignore the io.Reader they are given since Go 1.26 (GODEBUG=cryptocustomrand=1 aside)
var readerIgnoring = map[string]bool{
	"crypto/rand.Prime": true, "crypto/rsa.GenerateKey": true, "crypto/rsa.GenerateMultiPrimeKey": true,
	"crypto/ecdsa.GenerateKey": true, "crypto/ecdsa.Sign": true, "crypto/ecdsa.SignASN1": true, "crypto/ecdsa.(*PrivateKey).Sign": true,
	"crypto/ed25519.GenerateKey": true, "crypto/dsa.GenerateKey": true, "crypto/dsa.GenerateParameters": true,
	"crypto/rsa.EncryptPKCS1v15": true, "crypto/ecdh.(Curve).GenerateKey": true,
}

func stdKey(f *types.Func) string {
	if f == nil || f.Pkg() == nil {
		return ""
	}
	sig := f.Type().(*types.Signature)
	if sig.Recv() != nil {
		rt := sig.Recv().Type()
		ptr := ""
		if p, ok := rt.(*types.Pointer); ok {
			rt, ptr = p.Elem(), "*"
		}
		if n, ok := rt.(*types.Named); ok {
			return f.Pkg().Path() + ".(" + ptr + n.Obj().Name() + ")." + f.Name()
		}
	}
	return f.Pkg().Path() + "." + f.Name()
}

func checkC07(r *Run) {
	p := r.Prog
	// the loops and absorb sequences that fold every party's contribution into a joint value (session id,
	// seeds, nonce points) keep their bounds, conditions and order (guard / branch-condition / sponge-op inventories)
	genericGuards(r)
	r.Rule("C07.P1", "reader provenance at use: every io.Reader argument of every call in non-test library code originates from a parameter of the enclosing function (the caller's source), from a struct field (checked by P2), or from an enumerated deterministic derivation; package-level readers (crypto/rand.Reader), nil and literals are violations outside the named exemptions")
	r.Rule("C07.P2", "reader provenance at store: every store to an io.Reader-typed struct field stores a parameter-origin value (no ambient default, no nil fallback)")
	r.Rule("C07.S2", "readers that are ignored: no caller-supplied reader is passed to a standard-library function that ignores its reader since Go 1.26 (crypto/rand.Prime, crypto/rsa.GenerateKey, crypto/ecdsa.Sign, …): the output would not depend on the caller's source")
	r.Rule("C07.P3", "sampler inventory: per function, the multiset of calls that consume an io.Reader (callee + reader origin) includes the frozen reference; a round that stops sampling, or samples once where it sampled twice, is named")
	r.Rule("C07.P4", "no short reads: sampler code never calls Read directly on an io.Reader interface value (io.ReadFull is required); only reader adaptors (methods named Read) may")
	r.Rule("C07.P5", "no empty sample buffers: no buffer handed to io.ReadFull / Read is created with constant length 0 (make([]byte, 0, n))")
	sites := r.ReaderSites(c07Scope)
	nP1 := 0
	for _, s := range sites {
		if strings.Contains(p.RelFile(s.Call.Pos()), "/testutils") {
			continue
		}
		nP1++
		key := FuncKey(s.Fn.Obj) + " -> " + s.Callee + " #" + fmt.Sprint(s.ArgIdx)
		pos := p.RelPos(s.Call.Pos())
		exKey := FuncKey(s.Fn.Obj) + " -> " + s.Callee
		switch {
		case s.Origin == "PARAM" || s.Origin == "FIELD":
			r.Pass("C07.P1", key, pos, s.Origin+" `"+s.Shape+"`")
		case derivedReaders[s.Origin] != "":
			r.UseExempt("C07.P1 "+s.Origin, derivedReaders[s.Origin])
			r.Pass("C07.P1", key, pos, s.Origin)
		case strings.HasPrefix(s.Origin, "AMBIENT") && ambientExempt[exKey] != "":
			r.UseExempt("C07.P1 "+exKey, ambientExempt[exKey])
			r.Pass("C07.P1", key, pos, s.Origin+" (exempt)")
		default:
			r.Fail("C07.P1", key, pos, "reader argument `"+s.Shape+"` has origin "+s.Origin+": not the randomness the caller supplied to this party")
		}
		// S2
		if f, _ := typeutil.Callee(s.Unit.Info, s.Call).(*types.Func); f != nil && readerIgnoring[stdKey(f)] && !strings.HasPrefix(s.Origin, "AMBIENT:nil") {
			r.Fail("C07.S2", FuncKey(s.Fn.Obj)+" -> "+stdKey(f), pos, "caller's reader `"+s.Shape+"` is passed to "+stdKey(f)+", which ignores it (Go >= 1.26): the sampled value does not come from the caller's random source")
		}
	}
	// P6: a failed read must not be ignored
	r.Rule("C07.P6", "sampler errors are not ignored: every call that consumes an io.Reader and returns an error is an effective guard (its error reaches a failure exit) or is returned unchanged; otherwise a failing source silently yields an unsampled (all-zero) value")
	nP6 := 0
	for _, s := range sites {
		if strings.Contains(p.RelFile(s.Call.Pos()), "/testutils") {
			continue
		}
		rt := s.Unit.Info.TypeOf(s.Call)
		retErr := false
		switch t := rt.(type) {
		case *types.Tuple:
			retErr = t.Len() > 0 && isErrorType(t.At(t.Len()-1).Type())
		default:
			retErr = isErrorType(rt)
		}
		if !retErr || !isIOReader(s.Unit.Info.TypeOf(s.Arg)) {
			// readers of concrete hash/XOF types cannot fail; the rule is about the caller's io.Reader
			continue
		}
		nP6++
		guarded := false
		for _, a := range s.Unit.Atoms {
			for _, c := range a.Calls {
				if c == s.Call {
					guarded = true
				}
			}
		}
		r.Check(guarded, "C07.P6", FuncKey(s.Fn.Obj)+" -> "+s.Callee+" #err", p.RelPos(s.Call.Pos()), "error of sampler call "+s.Callee+" must reach a failure exit")
	}
	r.RequireCount("C07.P6", "error-returning sampler calls", nP6, 300)
	r.RequireCount("C07.P1", "io.Reader call arguments", nP1, 400)
	// the exemption for dkls23.Aggregate holds only while the scheme flows to .Verifier() and nowhere else
	checkSchemeOnlyVerifies(r)
	// P2: stores to io.Reader fields
	nP2 := 0
	for _, fd := range p.AllFuncsIn(c07Scope) {
		if strings.Contains(p.RelFile(fd.Decl.Pos()), "/testutils") {
			continue
		}
		for _, u := range r.G.unitsOf(fd) {
			info := u.Info
			ast.Inspect(u.Body, func(n ast.Node) bool {
				if lit, ok := n.(*ast.FuncLit); ok && lit != u.Lit {
					return false
				}
				check := func(fv *types.Var, val ast.Expr, at ast.Node) {
					if fv == nil || !fv.IsField() || !isIOReader(fv.Type()) {
						return
					}
					nP2++
					og, _ := classifyReader(u, val, at, 0)
					key := FuncKey(fd.Obj) + " :: " + fv.Name()
					// an explicit nil store is not a source (a later use panics and P1 flags nil at samplers)
					ok := og == "PARAM" || og == "FIELD" || og == "AMBIENT:nil" || derivedReaders[og] != ""
					if !ok && storeExempt[key] != "" && strings.HasPrefix(og, storeExemptOrigin[key]) {
						r.UseExempt("C07.P2 "+key, storeExempt[key])
						ok = true
					}
					r.Check(ok, "C07.P2", key, p.RelPos(at.Pos()), "field "+fv.Name()+" is stored from origin "+og)
				}
				switch x := n.(type) {
				case *ast.AssignStmt:
					for i, l := range x.Lhs {
						if sel, ok := ast.Unparen(l).(*ast.SelectorExpr); ok && i < len(x.Rhs) && len(x.Lhs) == len(x.Rhs) {
							fv, _ := info.Uses[sel.Sel].(*types.Var)
							check(fv, x.Rhs[i], x)
						}
					}
				case *ast.CompositeLit:
					st, _ := derefStruct(info.TypeOf(x))
					if st == nil {
						return true
					}
					for i, el := range x.Elts {
						if kv, ok := el.(*ast.KeyValueExpr); ok {
							if id, ok := kv.Key.(*ast.Ident); ok {
								fv, _ := info.Uses[id].(*types.Var)
								check(fv, kv.Value, kv)
							}
						} else if i < st.NumFields() {
							check(st.Field(i), el, el)
						}
					}
				}
				return true
			})
		}
	}
	r.RequireCount("C07.P2", "stores to io.Reader fields", nP2, 50)
	checkSamplerInventory(r)
	checkDirectReads(r)
}

var storeExempt = map[string]string{
	"pkg/base/prng/csprng/nist.NewNistPRNG :: entropySource": "documented default of an explicitly constructed DRBG: entropy source defaults to crypto/rand.Reader when the caller passes nil",
}
var storeExemptOrigin = map[string]string{
	"pkg/base/prng/csprng/nist.NewNistPRNG :: entropySource": "AMBIENT:crypto/rand.Reader",
}

func derefStruct(t types.Type) (*types.Struct, bool) {
	if t == nil {
		return nil, false
	}
	if p, ok := t.Underlying().(*types.Pointer); ok {
		t = p.Elem()
	}
	st, ok := t.Underlying().(*types.Struct)
	return st, ok
}

// checkSchemeOnlyVerifies: in dkls23.Aggregate the scheme built with crand.Reader must flow only into .Verifier().
func checkSchemeOnlyVerifies(r *Run) {
	fd := r.Prog.LookupFunc("pkg/mpc/signatures/ecdsa/dkls23.Aggregate")
	if fd == nil {
		return
	}
	info := fd.Pkg.TypesInfo
	var schemeVar *types.Var
	ast.Inspect(fd.Decl.Body, func(n ast.Node) bool {
		as, ok := n.(*ast.AssignStmt)
		if !ok || len(as.Rhs) != 1 {
			return true
		}
		c, ok := ast.Unparen(as.Rhs[0]).(*ast.CallExpr)
		if !ok {
			return true
		}
		if f := typeutil.StaticCallee(info, c); f != nil && FuncKey(f) == "pkg/signatures/ecdsa.NewScheme" {
			if id := identOf(as.Lhs[0]); id != nil {
				schemeVar, _ = info.Defs[id].(*types.Var)
			}
		}
		return true
	})
	if schemeVar == nil {
		return
	}
	bad := ""
	ast.Inspect(fd.Decl.Body, func(n ast.Node) bool {
		id, ok := n.(*ast.Ident)
		if !ok || info.Uses[id] != schemeVar {
			return true
		}
		// allowed: schemeVar.Verifier(...)
		path := pathTo(fd.Decl.Body, id)
		okUse := false
		if len(path) >= 2 {
			if sel, ok := path[len(path)-2].(*ast.SelectorExpr); ok && sel.X == ast.Expr(id) && sel.Sel.Name == "Verifier" {
				okUse = true
			}
		}
		if !okUse {
			bad = r.Prog.RelPos(id.Pos())
		}
		return true
	})
	r.Check(bad == "", "C07.P1", "pkg/mpc/signatures/ecdsa/dkls23.Aggregate :: scheme only verifies", r.Prog.RelPos(fd.Decl.Pos()), "the scheme created with crypto/rand.Reader is used only through .Verifier() "+bad)
}

// checkSamplerInventory: P3.
func checkSamplerInventory(r *Run) {
	p := r.Prog
	now := map[string]map[string]int{}
	for _, s := range r.ReaderSites(c07Scope) {
		if strings.Contains(p.RelFile(s.Call.Pos()), "/testutils") {
			continue
		}
		k := FuncKey(s.Fn.Obj)
		if now[k] == nil {
			now[k] = map[string]int{}
		}
		og := s.Origin
		if og == "FIELD" && s.Field != nil {
			og = "FIELD." + s.Field.Name()
		}
		// what is sampled into (the other operands) and how often (enclosing loops) is part of the sampler
		var ops []string
		for i, a := range s.Call.Args {
			if i != s.ArgIdx {
				ops = append(ops, s.Unit.argShape(a, s.Call, 1))
			}
		}
		entry := s.Callee + " <- " + og + " (" + strings.Join(ops, ", ") + ")"
		if lc := s.Unit.loopContext(s.Call); len(lc) > 0 {
			entry += " @" + strings.Join(lc, " / ")
		}
		now[k][entry]++
	}
	// samplers of unexported helpers count for their callers (extracting a helper does not change the inventory)
	direct := now
	now = map[string]map[string]int{}
	var expand func(fd *FuncDecl, into map[string]int, seen map[*FuncDecl]bool, depth int)
	expand = func(fd *FuncDecl, into map[string]int, seen map[*FuncDecl]bool, depth int) {
		if seen[fd] || depth > 4 {
			return
		}
		seen[fd] = true
		for s, c := range direct[FuncKey(fd.Obj)] {
			into[s] += c
		}
		info := fd.Pkg.TypesInfo
		hu := r.G.UnitOf(fd)
		ast.Inspect(fd.Decl.Body, func(n ast.Node) bool {
			if c, ok := n.(*ast.CallExpr); ok {
				if h := r.unexportedHelper(info, c); h != nil {
					sub := map[string]int{}
					expand(h, sub, seen, depth+1)
					ps := newParamSubst(hu, c)
					sfx := ""
					if lc := hu.loopContext(c); len(lc) > 0 {
						sfx = strings.Join(lc, " / ")
					}
					for s, cnt := range sub {
						into[mergeContexts(ps.apply(s), sfx, "")] += cnt
					}
				}
			}
			return true
		})
	}
	for _, fd := range p.AllFuncsIn(c07Scope) {
		m := map[string]int{}
		expand(fd, m, map[*FuncDecl]bool{}, 0)
		if len(m) > 0 {
			now[FuncKey(fd.Obj)] = m
		}
	}
	if r.Tier == "emit" {
		writeJSON(refPath("C07_samplers.json"), map[string]any{"comment": "frozen sampler inventory: function -> (callee <- reader origin) -> count", "functions": now})
		return
	}
	var ref struct {
		Functions map[string]map[string]int `json:"functions"`
	}
	if err := readJSON(refPath("C07_samplers.json"), &ref); err != nil {
		r.FailKind("anchor-unresolved", "C07.P3", "ref", err.Error())
		return
	}
	keys := []string{}
	for k := range ref.Functions {
		keys = append(keys, k)
	}
	sort.Strings(keys)
	for _, k := range keys {
		want := ref.Functions[k]
		have := now[k]
		fd := p.LookupFunc(k)
		pos := ""
		if fd != nil {
			pos = p.RelPos(fd.Decl.Pos())
		}
		if have == nil && fd == nil {
			// renamed/moved: accept if some function of the same package carries the same sampler multiset
			found := false
			pfx := k[:strings.LastIndex(k, ".")]
			for k2, h2 := range now {
				if strings.HasPrefix(k2, pfx) && ref.Functions[k2] == nil && includesCounts(h2, want) {
					found = true
				}
			}
			if found {
				r.Pass("C07.P3", k, "", "function renamed/moved; its sampler calls are intact")
			} else {
				r.FailKind("anchor-unresolved", "C07.P3", k, "function of the sampler reference no longer exists and no function of its package carries its sampler calls")
			}
			continue
		}
		ok := true
		sk := []string{}
		for s := range want {
			sk = append(sk, s)
		}
		sort.Strings(sk)
		for _, s := range sk {
			if have[s] < want[s] {
				ok = false
				r.Fail("C07.P3", k+" :: "+s, pos, fmt.Sprintf("sampler call `%s` occurs %d time(s), reference has %d: this function no longer draws that value from the caller's reader", s, have[s], want[s]))
			}
		}
		if ok {
			r.Pass("C07.P3", k, pos, fmt.Sprintf("%d sampler signatures present", len(want)))
		}
	}
	r.RequireCount("C07.P3", "functions with samplers", len(keys), 200)
}

func includesCounts(have, want map[string]int) bool {
	for k, v := range want {
		if have[k] < v {
			return false
		}
	}
	return true
}

// checkDirectReads: P4 and P5.
func checkDirectReads(r *Run) {
	p := r.Prog
	nReads, nBufs := 0, 0
	for _, fd := range p.AllFuncsIn(c07Scope) {
		if strings.Contains(p.RelFile(fd.Decl.Pos()), "/testutils") {
			continue
		}
		for _, u := range r.G.unitsOf(fd) {
			info := u.Info
			ast.Inspect(u.Body, func(n ast.Node) bool {
				if lit, ok := n.(*ast.FuncLit); ok && lit != u.Lit {
					return false
				}
				c, ok := n.(*ast.CallExpr)
				if !ok {
					return true
				}
				f, _ := typeutil.Callee(info, c).(*types.Func)
				if f == nil {
					return true
				}
				isReadFull := f.Pkg() != nil && f.Pkg().Path() == "io" && (f.Name() == "ReadFull" || f.Name() == "ReadAtLeast")
				isRead := f.Name() == "Read" && f.Type().(*types.Signature).Recv() != nil
				if isRead {
					sel := ast.Unparen(c.Fun).(*ast.SelectorExpr)
					rt := info.TypeOf(sel.X)
					if rt != nil {
						if _, isIface := rt.Underlying().(*types.Interface); isIface {
							nReads++
							r.Check(fd.Obj.Name() == "Read", "C07.P4", FuncKey(fd.Obj)+" :: Read", p.RelPos(c.Pos()), "direct Read on an io.Reader interface value (a short read leaves the rest of the buffer zero); only reader adaptors may do this")
						}
					}
				}
				var buf ast.Expr
				if isReadFull && len(c.Args) >= 2 {
					buf = c.Args[1]
				} else if isRead && len(c.Args) == 1 {
					buf = c.Args[0]
				}
				if buf != nil {
					nBufs++
					sh := u.argShape(buf, c, 0)
					r.Check(!strings.Contains(sh, ",0,") && !strings.HasSuffix(sh, ",0)") && !emptySliceShape(sh), "C07.P5", FuncKey(fd.Obj)+" :: buffer "+sh, p.RelPos(c.Pos()), "sample buffer `"+sh+"` must not be empty (constant length 0, or a slice that starts at its own length)")
				}
				return true
			})
		}
	}
	r.Analysed["C07.P4 direct interface Read calls"] = nReads
	r.RequireCount("C07.P5", "sample buffers", nBufs, 40)
	r.RequireCount("C07.P4", "direct interface Read calls (adaptors)", nReads, 1)
}

// emptySliceShape: make([]T, N)[N:] – a slice that starts where the buffer ends.
func emptySliceShape(sh string) bool {
	m := emptySliceRe.FindStringSubmatch(sh)
	return m != nil && m[1] == m[2]
}

var emptySliceRe = regexp.MustCompile(`^make\(<[^>]*>,(.+)\)\[(.+):\]$`)
