package main

import (
	"go/ast"
	"go/types"
	"strings"

	"golang.org/x/tools/go/types/typeutil"
)

// C12.D1 deterministic encodings: a slice obtained from a hash-based collection (hashset.List,
// hashmap.Keys/Values, maps.Keys/Values collected) has Go's randomised map iteration order. Stored
// unsorted into a field of a type that has a MarshalCBOR method, two equal values encode differently.
func checkEncodingDeterminism(r *Run) {
	r.Rule("C12.D1", "deterministic encodings: no slice produced by iterating a hash-based collection (List/Keys/Values of pkg/base/datastructures sets and maps, maps.Keys/Values) is stored unsorted into a field of a type with a MarshalCBOR method; map iteration order is randomised, so equal values would encode differently")
	p := r.Prog
	// types with MarshalCBOR
	encodable := func(t types.Type) bool {
		if t == nil {
			return false
		}
		if pt, ok := t.(*types.Pointer); ok {
			t = pt.Elem()
		}
		n, ok := types.Unalias(t).(*types.Named)
		if !ok {
			return false
		}
		for _, tt := range []types.Type{n, types.NewPointer(n)} {
			ms := types.NewMethodSet(tt)
			for i := 0; i < ms.Len(); i++ {
				if ms.At(i).Obj().Name() == "MarshalCBOR" {
					return true
				}
			}
		}
		return false
	}
	unordered := func(info *types.Info, e ast.Expr) string {
		c, ok := ast.Unparen(e).(*ast.CallExpr)
		if !ok {
			return ""
		}
		f, _ := typeutil.Callee(info, c).(*types.Func)
		if f == nil || f.Pkg() == nil {
			return ""
		}
		pp := f.Pkg().Path()
		switch {
		case strings.Contains(pp, "/pkg/base/datastructures") && (f.Name() == "List" || f.Name() == "Keys" || f.Name() == "Values"):
			return FuncKey(f)
		case pp == "slices" && (f.Name() == "Collect" || f.Name() == "AppendSeq") && len(c.Args) > 0:
			// slices.Collect(maps.Keys(m))
			last := c.Args[len(c.Args)-1]
			if ic, ok := ast.Unparen(last).(*ast.CallExpr); ok {
				if g, _ := typeutil.Callee(info, ic).(*types.Func); g != nil && g.Pkg() != nil && g.Pkg().Path() == "maps" && (g.Name() == "Keys" || g.Name() == "Values") {
					return "maps." + g.Name()
				}
			}
		}
		return ""
	}
	n := 0
	for _, fd := range p.FuncsIn(Scope{Include: []string{"pkg/"}}) {
		u := r.G.UnitOf(fd)
		info := u.Info
		check := func(structT types.Type, fieldName string, val ast.Expr, at ast.Node) {
			if !encodable(structT) {
				return
			}
			src := unordered(info, val)
			if src == "" {
				// one definition step
				if id := identOf(val); id != nil {
					if v, ok := info.Uses[id].(*types.Var); ok && !v.IsField() {
						ds := u.reachingDefs(v, at)
						if len(ds) == 1 && ds[0].rhs != nil {
							src = unordered(info, ds[0].rhs)
							if src != "" && sortedLater(u, v, ds[0].node, at) {
								src = ""
							}
						}
					}
				}
			}
			if src == "" {
				return
			}
			n++
			r.Fail("C12.D1", FuncKey(fd.Obj)+" :: "+shortType(structT)+"."+fieldName, p.RelPos(at.Pos()), "field "+fieldName+" of encodable type "+shortType(structT)+" is filled from "+src+" (randomised map iteration order) without sorting: equal values encode differently")
		}
		ast.Inspect(fd.Decl.Body, func(nd ast.Node) bool {
			switch x := nd.(type) {
			case *ast.CompositeLit:
				t := info.TypeOf(x)
				st, _ := derefStruct(t)
				if st == nil {
					return true
				}
				for i, el := range x.Elts {
					if kv, ok := el.(*ast.KeyValueExpr); ok {
						if id, ok := kv.Key.(*ast.Ident); ok {
							check(t, id.Name, kv.Value, kv)
						}
					} else if i < st.NumFields() {
						check(t, st.Field(i).Name(), el, el)
					}
				}
			case *ast.AssignStmt:
				for i, l := range x.Lhs {
					sel, ok := ast.Unparen(l).(*ast.SelectorExpr)
					if !ok || i >= len(x.Rhs) || len(x.Lhs) != len(x.Rhs) {
						continue
					}
					if fv, ok := info.Uses[sel.Sel].(*types.Var); ok && fv.IsField() {
						check(info.TypeOf(sel.X), fv.Name(), x.Rhs[i], x)
					}
				}
			}
			return true
		})
	}
	r.Analysed["C12.D1 unordered stores into encodable types"] = n
	r.Pass("C12.D1", "all-stores", "", "composite literals and field stores of all encodable types inspected")
}

// sortedLater: v is passed to a sort function between its definition and the use.
func sortedLater(u *Unit, v *types.Var, from, to ast.Node) bool {
	res := false
	ast.Inspect(u.Body, func(n ast.Node) bool {
		c, ok := n.(*ast.CallExpr)
		if !ok || c.Pos() < from.End() || c.End() > to.Pos() {
			return true
		}
		f, _ := typeutil.Callee(u.Info, c).(*types.Func)
		if f == nil || !strings.Contains(strings.ToLower(f.Name()), "sort") {
			return true
		}
		for _, a := range c.Args {
			if isVarIdent(u.Info, a, v) {
				res = true
			}
		}
		return true
	})
	return res
}
