package main

import (
	"go/types"
	"strings"
)

// C13.G4 subgroup sibling rule: every fallible constructor of a type that promises prime order goes
// through a torsion check – directly, or by delegating to another constructor of the same type.
var primeOrderTypes = map[string]string{
	"pkg/base/curves/pairable/bls12381.PointG1":       "G1 elements are by definition in the prime-order subgroup",
	"pkg/base/curves/pairable/bls12381.PointG2":       "G2 elements are by definition in the prime-order subgroup",
	"pkg/base/curves/edwards25519.PrimeSubGroupPoint": "prime-subgroup type of edwards25519",
	"pkg/base/curves/curve25519.PrimeSubGroupPoint":   "prime-subgroup type of curve25519",
}

func checkC13(r *Run) {
	genericGuards(r)
	r.Rule("C13.G4", "subgroup sibling rule: every exported fallible constructor/decoder that returns a type promising prime order (bls12381 PointG1/PointG2, the PrimeSubGroupPoint types) contains an effective IsTorsionFree guard or delegates to another such constructor of the same type; a new entry point without the check is named")
	n := 0
	for _, fd := range r.Prog.FuncsIn(Scope{Include: []string{"pkg/base/curves/"}}) {
		// the decoder / affine-constructor family of the curve front ends (hash-to-curve clears the cofactor,
		// group operations take elements that already are of type T)
		if !fd.Obj.Exported() || !strings.HasPrefix(fd.Obj.Name(), "From") {
			continue
		}
		sig := fd.Obj.Type().(*types.Signature)
		if sig.Results().Len() != 2 || !isErrorType(sig.Results().At(1).Type()) || sig.Params().Len() == 0 {
			continue
		}
		rt := sig.Results().At(0).Type()
		if p, ok := rt.(*types.Pointer); ok {
			rt = p.Elem()
		}
		named, ok := types.Unalias(rt).(*types.Named)
		if !ok || named.Obj().Pkg() == nil {
			continue
		}
		tkey := strings.TrimPrefix(named.Obj().Pkg().Path(), modPath+"/") + "." + named.Obj().Name()
		if primeOrderTypes[tkey] == "" {
			continue
		}
		// inputs that can carry an unchecked point: bytes or field elements (not values of T itself)
		takesRaw := false
		for i := 0; i < sig.Params().Len(); i++ {
			pt := sig.Params().At(i).Type()
			if _, isSlice := pt.Underlying().(*types.Slice); isSlice {
				takesRaw = true
			}
			if pp, isPtr := pt.(*types.Pointer); isPtr {
				if pn, isNamed := types.Unalias(pp.Elem()).(*types.Named); isNamed && pn != named {
					takesRaw = true
				}
			}
		}
		if !takesRaw {
			continue
		}
		n++
		ok = false
		how := ""
		for _, a := range r.G.FlatAtoms(fd) {
			for _, k := range a.Callees {
				if strings.HasSuffix(k, ".IsTorsionFree") {
					ok, how = true, "IsTorsionFree guard"
				}
				// delegation to another constructor returning the same type
				if d := r.Prog.LookupFunc(k); d != nil && d != fd {
					ds := d.Obj.Type().(*types.Signature)
					if ds.Results().Len() == 2 && types.Identical(ds.Results().At(0).Type(), sig.Results().At(0).Type()) {
						ok, how = true, "delegates to "+k
					}
				}
			}
		}
		r.Check(ok, "C13.G4", FuncKey(fd.Obj), r.Prog.RelPos(fd.Decl.Pos()), "returns "+tkey+" ("+primeOrderTypes[tkey]+") "+how)
	}
	r.RequireCount("C13.G4", "constructors of prime-order types", n, 10)
}
