package main

import (
	"go/ast"
	"go/types"
	"strings"
)

// C13.G4 subgroup sibling rule: every fallible constructor of a type that promises prime order goes
// through a torsion check – directly, or by delegating to another constructor of the same type.
var primeOrderTypes = map[string]string{
	"pkg/base/curves/pairable/bls12381.PointG1":       "G1 elements are by definition in the prime-order subgroup",
	"pkg/base/curves/pairable/bls12381.PointG2":       "G2 elements are by definition in the prime-order subgroup",
	"pkg/base/curves/edwards25519.PrimeSubGroupPoint": "prime-subgroup type of edwards25519",
	"pkg/base/curves/curve25519.PrimeSubGroupPoint":   "prime-subgroup type of curve25519",
}

func checkC13(r *Run) {
	genericGuards(r)
	checkLengthFirst(r, "C13.G2", Scope{Include: []string{"pkg/base/curves/"}}, 10)
	r.Rule("C13.G4", "subgroup sibling rule: every exported fallible constructor/decoder that returns a type promising prime order (bls12381 PointG1/PointG2, the PrimeSubGroupPoint types) contains an effective IsTorsionFree guard or delegates to another such constructor of the same type; a new entry point without the check is named")
	n := 0
	for _, fd := range r.Prog.FuncsIn(Scope{Include: []string{"pkg/base/curves/"}}) {
		// the decoder / affine-constructor family of the curve front ends (hash-to-curve clears the cofactor,
		// group operations take elements that already are of type T)
		if !fd.Obj.Exported() || !strings.HasPrefix(fd.Obj.Name(), "From") {
			continue
		}
		sig := fd.Obj.Type().(*types.Signature)
		if sig.Results().Len() != 2 || !isErrorType(sig.Results().At(1).Type()) || sig.Params().Len() == 0 {
			continue
		}
		rt := sig.Results().At(0).Type()
		if p, ok := rt.(*types.Pointer); ok {
			rt = p.Elem()
		}
		named, ok := types.Unalias(rt).(*types.Named)
		if !ok || named.Obj().Pkg() == nil {
			continue
		}
		tkey := strings.TrimPrefix(named.Obj().Pkg().Path(), modPath+"/") + "." + named.Obj().Name()
		if primeOrderTypes[tkey] == "" {
			continue
		}
		// inputs that can carry an unchecked point: bytes or field elements (not values of T itself)
		takesRaw := false
		for i := 0; i < sig.Params().Len(); i++ {
			pt := sig.Params().At(i).Type()
			if _, isSlice := pt.Underlying().(*types.Slice); isSlice {
				takesRaw = true
			}
			if pp, isPtr := pt.(*types.Pointer); isPtr {
				if pn, isNamed := types.Unalias(pp.Elem()).(*types.Named); isNamed && pn != named {
					takesRaw = true
				}
			}
		}
		if !takesRaw {
			continue
		}
		n++
		ok = false
		how := ""
		for _, a := range r.G.FlatAtoms(fd) {
			for _, k := range a.Callees {
				if strings.HasSuffix(k, ".IsTorsionFree") {
					ok, how = true, "IsTorsionFree guard"
				}
				// delegation to another constructor returning the same type
				if d := r.Prog.LookupFunc(k); d != nil && d != fd {
					ds := d.Obj.Type().(*types.Signature)
					if ds.Results().Len() == 2 && types.Identical(ds.Results().At(0).Type(), sig.Results().At(0).Type()) {
						ok, how = true, "delegates to "+k
					}
				}
			}
		}
		r.Check(ok, "C13.G4", FuncKey(fd.Obj), r.Prog.RelPos(fd.Decl.Pos()), "returns "+tkey+" ("+primeOrderTypes[tkey]+") "+how)
	}
	r.RequireCount("C13.G4", "constructors of prime-order types", n, 10)
}

// checkLengthFirst (C13.G2): in an exported decoder every access `p[c]` / `p[a:b]` with constant bounds to a
// []byte parameter is dominated by a branch on `len(p)`: a decoder that reads a flag byte before it has
// looked at the length panics on a short (empty) input instead of rejecting it.
func checkLengthFirst(r *Run, rule string, scope Scope, min int) {
	r.Rule(rule, "length before content: in every exported function of the decoder scope, each constant-index or constant-bound access to a []byte parameter is dominated by a branch whose condition tests len() of that parameter (or the parameter was re-sliced / copied into a fixed-size buffer); a flag byte read before the length check is named")
	n := 0
	for _, fd := range r.Prog.FuncsIn(scope) {
		if !fd.Obj.Exported() || fd.Decl.Body == nil {
			continue
		}
		// the low-level `impl` packages sit behind the curve front ends, which check lengths for them
		if strings.Contains(r.Prog.RelPos(fd.Decl.Pos()), "/impl/") {
			continue
		}
		sig := fd.Obj.Type().(*types.Signature)
		params := map[*types.Var]bool{}
		for i := 0; i < sig.Params().Len(); i++ {
			p := sig.Params().At(i)
			if sl, ok := p.Type().Underlying().(*types.Slice); ok && !sig.Variadic() {
				if b, ok := sl.Elem().Underlying().(*types.Basic); ok && b.Kind() == types.Uint8 {
					params[p] = true
				}
			}
		}
		if len(params) == 0 {
			continue
		}
		u := r.G.UnitOf(fd)
		info := fd.Pkg.TypesInfo
		// a parameter that is reassigned (`in = in[1:]`) is out of the rule's reach
		ast.Inspect(fd.Decl.Body, func(x ast.Node) bool {
			if as, ok := x.(*ast.AssignStmt); ok {
				for _, l := range as.Lhs {
					if id := identOf(l); id != nil {
						if v, ok := info.Uses[id].(*types.Var); ok {
							delete(params, v)
						}
					}
				}
			}
			return true
		})
		lenTests := func(cond ast.Node, p *types.Var) bool {
			found := false
			ast.Inspect(cond, func(x ast.Node) bool {
				if c, ok := x.(*ast.CallExpr); ok && len(c.Args) == 1 {
					if id, ok := ast.Unparen(c.Fun).(*ast.Ident); ok {
						if b, ok := info.Uses[id].(*types.Builtin); ok && b.Name() == "len" {
							if aid := identOf(c.Args[0]); aid != nil && info.Uses[aid] == p {
								found = true
							}
						}
					}
				}
				return !found
			})
			return found
		}
		ast.Inspect(fd.Decl.Body, func(x ast.Node) bool {
			if _, isLit := x.(*ast.FuncLit); isLit {
				return false
			}
			var base ast.Expr
			constAccess := false
			switch e := x.(type) {
			case *ast.IndexExpr:
				base = e.X
				if tv, ok := info.Types[e.Index]; ok && tv.Value != nil {
					constAccess = true
				}
			case *ast.SliceExpr:
				base = e.X
				for _, b := range []ast.Expr{e.Low, e.High} {
					if b != nil {
						if tv, ok := info.Types[b]; ok && tv.Value != nil && tv.Value.String() != "0" {
							constAccess = true
						}
					}
				}
			}
			if !constAccess {
				return true
			}
			id := identOf(base)
			if id == nil {
				return true
			}
			p, ok := info.Uses[id].(*types.Var)
			if !ok || !params[p] {
				return true
			}
			n++
			nb := u.BlockOf(x)
			guarded := false
			if nb != nil {
				for _, b := range u.CFG.Blocks {
					if !b.Live || len(b.Succs) < 2 || len(b.Nodes) == 0 || b == nb && false {
						continue
					}
					cond := b.Nodes[len(b.Nodes)-1]
					if !lenTests(cond, p) {
						continue
					}
					if b != nb && u.Dominates(b, nb) {
						guarded = true
						break
					}
					// `len(p) != n || p[n-1]&0x80 != 0`: the test precedes the access inside one short-circuit condition
					if b == nb && cond.Pos() <= x.Pos() && x.End() <= cond.End() && lenTestBefore(info, cond, p, x) {
						guarded = true
						break
					}
				}
			}
			key := FuncKey(fd.Obj) + " :: " + p.Name() + " access"
			if guarded {
				r.Pass(rule, key, r.Prog.RelPos(x.Pos()), "dominated by a test of len("+p.Name()+")")
			} else {
				r.Fail(rule, key, r.Prog.RelPos(x.Pos()), "constant-position access to parameter `"+p.Name()+"` is not dominated by any test of len("+p.Name()+"): a short input panics instead of being rejected")
			}
			return true
		})
	}
	r.RequireCount(rule, "constant-position accesses to []byte parameters", n, min)
}

// lenTestBefore: inside the short-circuit condition cond, a test of len(p) is the left operand of an && / ||
// whose right operand contains the access.
func lenTestBefore(info *types.Info, cond ast.Node, p *types.Var, access ast.Node) bool {
	res := false
	ast.Inspect(cond, func(x ast.Node) bool {
		be, ok := x.(*ast.BinaryExpr)
		if !ok || (be.Op.String() != "&&" && be.Op.String() != "||") {
			return true
		}
		if be.Y.Pos() <= access.Pos() && access.End() <= be.Y.End() {
			ast.Inspect(be.X, func(y ast.Node) bool {
				if c, ok := y.(*ast.CallExpr); ok && len(c.Args) == 1 {
					if id, ok := ast.Unparen(c.Fun).(*ast.Ident); ok {
						if b, ok := info.Uses[id].(*types.Builtin); ok && b.Name() == "len" {
							if aid := identOf(c.Args[0]); aid != nil && info.Uses[aid] == p {
								res = true
							}
						}
					}
				}
				return !res
			})
		}
		return !res
	})
	return res
}
