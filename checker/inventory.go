package main

import (
	"encoding/json"
	"fmt"
	"go/ast"
	"go/types"
	"os"
	"path/filepath"
	"regexp"
	"sort"
	"strings"
)

// Scope selects declared functions by repository-relative file path prefix.
type Scope struct {
	Include []string // path prefixes (directories end with /) or exact files
	Exclude []string
	KeyRe   *regexp.Regexp // optional: additionally restrict by function key
	AtomRe  *regexp.Regexp // optional: keep only guard signatures matching this (focused inventories)
}

func (s Scope) filterInv(inv Inventory) Inventory {
	if s.AtomRe == nil {
		return inv
	}
	out := Inventory{}
	for k, v := range inv {
		if s.AtomRe.MatchString(k) {
			out[k] = v
		}
	}
	return out
}

func (s Scope) matchFile(rel string) bool {
	in := false
	for _, p := range s.Include {
		if strings.HasPrefix(rel, p) {
			in = true
			break
		}
	}
	if !in {
		return false
	}
	for _, p := range s.Exclude {
		if strings.HasPrefix(rel, p) {
			return false
		}
	}
	return true
}

// FuncsIn lists in-scope function declarations sorted by key (init functions excluded: several per
// package share one key).
func (p *Program) FuncsIn(s Scope) []*FuncDecl { return p.funcsIn(s, false) }

// AllFuncsIn also returns init functions (for rules that only scan bodies).
func (p *Program) AllFuncsIn(s Scope) []*FuncDecl { return p.funcsIn(s, true) }

func (p *Program) funcsIn(s Scope, withInit bool) []*FuncDecl {
	var out []*FuncDecl
	for _, fd := range p.Funcs {
		if !withInit && (fd.Obj.Name() == "init" || fd.Obj.Name() == "_") {
			continue
		}
		if s.matchFile(p.RelFile(fd.Decl.Pos())) && (s.KeyRe == nil || s.KeyRe.MatchString(FuncKey(fd.Obj))) {
			out = append(out, fd)
		}
	}
	sort.Slice(out, func(i, j int) bool { return FuncKey(out[i].Obj) < FuncKey(out[j].Obj) })
	return out
}

type refInventory struct {
	Comment   string               `json:"comment"`
	Functions map[string]Inventory `json:"functions"`
}

func refPath(name string) string { return filepath.Join(verifDir(), "checker", "ref", name) }

func readRef(name string) (*refInventory, error) {
	bs, err := os.ReadFile(refPath(name))
	if err != nil {
		return nil, err
	}
	var ri refInventory
	if err := json.Unmarshal(bs, &ri); err != nil {
		return nil, err
	}
	return &ri, nil
}

// inventoryKeys decides which functions carry their own inventory entry: exported functions and
// methods, plus unexported ones whose atoms are not inherited by any exported function in scope.
func (r *Run) inventoryKeys(fds []*FuncDecl) []*FuncDecl {
	inherited := map[string]bool{}
	for _, fd := range fds {
		if !fd.Obj.Exported() {
			continue
		}
		for _, a := range r.G.FlatAtoms(fd) {
			if a.Via != "" {
				inherited[FuncKey(a.Unit.Fn.Obj)] = true
			}
		}
	}
	var out []*FuncDecl
	for _, fd := range fds {
		if fd.Obj.Exported() || !inherited[FuncKey(fd.Obj)] {
			out = append(out, fd)
		}
	}
	return out
}

// EmitGuardRef writes the reference inventory for a scope.
func (r *Run) EmitGuardRef(name string, scope Scope) error {
	ri := &refInventory{Comment: "frozen guard inventory: function -> atom signature -> {n,must}; produced by `bcv emit`, inclusion rule (now ⊇ ref)", Functions: map[string]Inventory{}}
	for _, fd := range r.inventoryKeys(r.Prog.FuncsIn(scope)) {
		inv := scope.filterInv(r.G.InventoryOf(fd))
		if len(inv) == 0 {
			continue
		}
		ri.Functions[FuncKey(fd.Obj)] = inv
	}
	os.MkdirAll(filepath.Dir(refPath(name)), 0o755)
	return writeJSON(refPath(name), ri)
}

var funcKeyTokenRe = regexp.MustCompile(`pkg/[\w/]+\.(?:\(\*?\w+\)\.)?\w+`)

// normRenamed makes inventory keys independent of the names of unexported functions that were renamed
// (or newly introduced) since the references were frozen: a reference token naming an unexported function
// that no longer exists, and a current token naming an unexported function no reference knows, both
// become `<package>.<renamed>`.
func (r *Run) normRenamed(s string) string {
	if r.G.known == nil || !strings.Contains(s, "pkg/") {
		return s
	}
	if r.curKeys == nil {
		r.curKeys = map[string]bool{}
		for f := range r.Prog.Funcs {
			r.curKeys[FuncKey(f)] = true
		}
	}
	return funcKeyTokenRe.ReplaceAllStringFunc(s, func(tok string) string {
		i := strings.LastIndexByte(tok, '.')
		name := tok[i+1:]
		if name == "" || !(name[0] >= 'a' && name[0] <= 'z') {
			return tok
		}
		gone := r.G.known[tok] && !r.curKeys[tok]
		fresh := !r.G.known[tok] && r.curKeys[tok]
		if gone || fresh {
			pk := tok[:i]
			if j := strings.Index(pk, ".("); j >= 0 {
				pk = pk[:j]
			}
			return pk + ".<renamed>"
		}
		return tok
	})
}

func (r *Run) normInv(inv Inventory) Inventory {
	out := Inventory{}
	for k, c := range inv {
		nk := r.normRenamed(k)
		if o := out[nk]; o != nil {
			m := *o
			m.Total += c.Total
			m.Must += c.Must
			m.Args = append(append([]string{}, o.Args...), c.Args...)
			m.Tags = append(append([]string{}, o.Tags...), c.Tags...)
			out[nk] = &m
		} else {
			out[nk] = c
		}
	}
	return out
}

func invIncludes(now, ref Inventory) (missing []string) {
	keys := []string{}
	for k := range ref {
		keys = append(keys, k)
	}
	sort.Strings(keys)
	for _, k := range keys {
		rc := ref[k]
		nc := now[k]
		if nc == nil {
			missing = append(missing, fmt.Sprintf("guard `%s` (×%d) is gone or no longer effective", k, rc.Total))
			continue
		}
		if nc.Total < rc.Total {
			missing = append(missing, fmt.Sprintf("guard `%s`: %d effective occurrence(s), reference has %d", k, nc.Total, rc.Total))
		} else if nc.Must < rc.Must {
			missing = append(missing, fmt.Sprintf("guard `%s` is no longer on every path to an output (conditional now; MUST %d < %d)", k, nc.Must, rc.Must))
		} else {
			// operand shapes: multiset inclusion
			have := map[string]int{}
			for _, a := range nc.Args {
				have[a]++
			}
			for _, a := range rc.Args {
				if have[a] > 0 {
					have[a]--
				} else {
					missing = append(missing, fmt.Sprintf("guard `%s` no longer checks the same operands: reference `%s`, now %v", k, a, nc.Args))
				}
			}
			haveT := map[string]int{}
			for _, a := range nc.Tags {
				haveT[a]++
			}
			for _, a := range rc.Tags {
				if haveT[a] > 0 {
					haveT[a]--
				} else {
					missing = append(missing, fmt.Sprintf("guard `%s` no longer blames the same party on failure: reference tag value `%s`, now %v", k, a, nc.Tags))
				}
			}
		}
	}
	return missing
}

// CheckGuardInventory evaluates rule form (a): Guards_now(F) ⊇ Guards_ref(F) for every F in ref.
func (r *Run) CheckGuardInventory(rule, name string, scope Scope, minFuncs int) {
	r.Rule(rule, "guard inventory: for every function of the frozen reference ("+name+") the multiset of effective guard atoms (resolved callee / comparison shape, MUST or PRESENT) on the current tree includes the reference; a removed, discarded (`_ =`), neutralised (failure branch returns nil) or newly conditional check is named")
	ri, err := readRef(name)
	if err != nil {
		r.FailKind("anchor-unresolved", rule, "ref:"+name, "cannot read reference inventory: "+err.Error())
		return
	}
	fds := r.Prog.FuncsIn(scope)
	byKey := map[string]*FuncDecl{}
	for _, fd := range fds {
		byKey[FuncKey(fd.Obj)] = fd
	}
	keys := []string{}
	for k := range ri.Functions {
		keys = append(keys, k)
	}
	sort.Strings(keys)
	natoms := 0
	for _, k := range keys {
		ref := ri.Functions[k]
		for _, c := range ref {
			natoms += c.Total
		}
		fd := byKey[k]
		if fd == nil {
			// rename/move tolerance: any function of the same package whose inventory includes the reference
			pkgPrefix := k
			if i := strings.LastIndex(k, ".("); i >= 0 {
				pkgPrefix = k[:i]
			} else if i := strings.LastIndex(k, "."); i >= 0 {
				pkgPrefix = k[:i]
			}
			found := ""
			for k2, fd2 := range byKey {
				if strings.HasPrefix(k2, pkgPrefix+".") && ri.Functions[k2] == nil {
					if len(invIncludes(r.normInv(scope.filterInv(r.G.InventoryOf(fd2))), r.normInv(ref))) == 0 {
						found = k2
						break
					}
				}
			}
			if found != "" {
				r.Pass(rule, k, "", "function renamed/moved to "+found+"; its guards are intact")
				continue
			}
			r.FailKind("anchor-unresolved", rule, k, "function of the reference inventory no longer exists and no function of its package carries its guards")
			continue
		}
		now := r.normInv(scope.filterInv(r.G.InventoryOf(fd)))
		missing := invIncludes(now, r.normInv(ref))
		pos := r.Prog.RelPos(fd.Decl.Pos())
		if len(missing) == 0 {
			r.Pass(rule, k, pos, fmt.Sprintf("%d guard signatures present", len(ref)))
		} else {
			for _, m := range missing {
				r.Fail(rule, k+" :: "+firstWord(m), pos, m)
			}
		}
	}
	r.Analysed[rule+" functions"] = len(keys)
	r.Analysed[rule+" reference atoms"] = natoms
	r.RequireCount(rule, "reference functions", len(keys), minFuncs)
}

func firstWord(m string) string {
	// the instance key of a missing guard is the guard signature (between backticks)
	if i := strings.IndexByte(m, '`'); i >= 0 {
		if j := strings.IndexByte(m[i+1:], '`'); j >= 0 {
			return m[i+1 : i+1+j]
		}
	}
	return m
}

// ---------- generic structural rules shared by several properties ----------

// CheckSelfComparison: x.Equal(x), bytes.Equal(a, a), ct.CompareBytes(a, a) … with syntactically
// identical operands make a guard vacuous. Zero expected; positive control in selftest.
func (r *Run) CheckSelfComparison(rule string, scope Scope) {
	r.Rule(rule, "no vacuous comparison: no guard compares an expression with itself (x.Equal(x), Compare(a,a), a != a)")
	n := 0
	for _, fd := range r.Prog.FuncsIn(scope) {
		info := fd.Pkg.TypesInfo
		ast.Inspect(fd.Decl.Body, func(nd ast.Node) bool {
			switch x := nd.(type) {
			case *ast.CallExpr:
				sel, ok := ast.Unparen(x.Fun).(*ast.SelectorExpr)
				if !ok {
					return true
				}
				name := sel.Sel.Name
				isCmp := name == "Equal" || name == "Equals" || name == "Compare" || name == "CompareBytes" || name == "ConstantTimeCompare" || name == "ConstantTimeEq" || name == "IsEqual" || name == "Cmp"
				if !isCmp {
					return true
				}
				n++
				if id := identOf(sel.X); id != nil {
					if _, isPkg := info.Uses[id].(*types.PkgName); isPkg && len(x.Args) != 2 {
						return true
					}
				}
				var a, b ast.Expr
				if len(x.Args) == 1 {
					a, b = sel.X, x.Args[0]
				} else if len(x.Args) == 2 {
					a, b = x.Args[0], x.Args[1]
				} else {
					return true
				}
				if sameExpr(a, b) && pureExpr(a) {
					r.Fail(rule, FuncKey(fd.Obj)+" :: "+name, r.Prog.RelPos(x.Pos()), "comparison of an expression with itself: "+exprString(a)+" vs "+exprString(b))
				}
			case *ast.BinaryExpr:
				if x.Op.String() == "==" || x.Op.String() == "!=" {
					n++
					if sameExpr(x.X, x.Y) && pureExpr(x.X) {
						if _, isLit := ast.Unparen(x.X).(*ast.BasicLit); !isLit {
							r.Fail(rule, FuncKey(fd.Obj)+" :: "+x.Op.String(), r.Prog.RelPos(x.Pos()), "comparison of an expression with itself: "+exprString(x.X))
						}
					}
				}
			}
			return true
		})
	}
	r.Analysed[rule+" comparisons"] = n
	if n > 0 {
		r.Pass(rule, "all-comparisons", "", fmt.Sprintf("%d comparison sites inspected", n))
	}
}

func exprString(e ast.Expr) string {
	var sb strings.Builder
	writeExpr(&sb, e)
	return sb.String()
}

func writeExpr(sb *strings.Builder, e ast.Expr) {
	switch x := ast.Unparen(e).(type) {
	case *ast.Ident:
		sb.WriteString(x.Name)
	case *ast.SelectorExpr:
		writeExpr(sb, x.X)
		sb.WriteString("." + x.Sel.Name)
	case *ast.CallExpr:
		writeExpr(sb, x.Fun)
		sb.WriteString("(")
		for i, a := range x.Args {
			if i > 0 {
				sb.WriteString(",")
			}
			writeExpr(sb, a)
		}
		sb.WriteString(")")
	case *ast.IndexExpr:
		writeExpr(sb, x.X)
		sb.WriteString("[")
		writeExpr(sb, x.Index)
		sb.WriteString("]")
	case *ast.StarExpr:
		sb.WriteString("*")
		writeExpr(sb, x.X)
	case *ast.UnaryExpr:
		sb.WriteString(x.Op.String())
		writeExpr(sb, x.X)
	case *ast.BinaryExpr:
		writeExpr(sb, x.X)
		sb.WriteString(x.Op.String())
		writeExpr(sb, x.Y)
	case *ast.BasicLit:
		sb.WriteString(x.Value)
	case *ast.SliceExpr:
		writeExpr(sb, x.X)
		sb.WriteString("[")
		if x.Low != nil {
			writeExpr(sb, x.Low)
		}
		sb.WriteString(":")
		if x.High != nil {
			writeExpr(sb, x.High)
		}
		sb.WriteString("]")
	default:
		fmt.Fprintf(sb, "%T", e)
	}
}

func sameExpr(a, b ast.Expr) bool {
	return exprString(a) == exprString(b) && !strings.Contains(exprString(a), "*ast.")
}

// pureExpr: identifiers, selectors, index and accessor calls without arguments (deterministic getters).
func pureExpr(e ast.Expr) bool {
	switch x := ast.Unparen(e).(type) {
	case *ast.Ident, *ast.BasicLit:
		return true
	case *ast.SelectorExpr:
		return pureExpr(x.X)
	case *ast.IndexExpr:
		return pureExpr(x.X) && pureExpr(x.Index)
	case *ast.StarExpr:
		return pureExpr(x.X)
	case *ast.CallExpr:
		if len(x.Args) != 0 {
			return false
		}
		sel, ok := ast.Unparen(x.Fun).(*ast.SelectorExpr)
		if !ok {
			return false
		}
		// sampling calls are not pure
		n := sel.Sel.Name
		if strings.HasPrefix(n, "Random") || strings.HasPrefix(n, "Sample") || n == "Next" || n == "Read" {
			return false
		}
		return pureExpr(sel.X)
	}
	return false
}

func writeJSON(path string, v any) error {
	f, err := os.Create(path)
	if err != nil {
		return err
	}
	defer f.Close()
	enc := json.NewEncoder(f)
	enc.SetEscapeHTML(false)
	enc.SetIndent("", " ")
	return enc.Encode(v)
}

func readJSON(path string, v any) error {
	bs, err := os.ReadFile(path)
	if err != nil {
		return err
	}
	return json.Unmarshal(bs, v)
}

// CheckIgnoredTry (G7): a call to a Try* function (errgroup.TryGo, Mutex.TryLock, …) whose boolean result
// is discarded silently skips the work when the attempt fails.
func (r *Run) CheckIgnoredTry(rule string, scope Scope) {
	r.Rule(rule, "no ignored attempt: the boolean result of a Try* call (errgroup.TryGo, TryLock, …) is never discarded; a skipped verification goroutine would otherwise go unnoticed")
	n := 0
	for _, fd := range r.Prog.FuncsIn(scope) {
		info := fd.Pkg.TypesInfo
		ast.Inspect(fd.Decl.Body, func(nd ast.Node) bool {
			es, ok := nd.(*ast.ExprStmt)
			if !ok {
				return true
			}
			c, ok := es.X.(*ast.CallExpr)
			if !ok {
				return true
			}
			var name string
			switch f := ast.Unparen(c.Fun).(type) {
			case *ast.SelectorExpr:
				name = f.Sel.Name
			case *ast.Ident:
				name = f.Name
			}
			if !strings.HasPrefix(name, "Try") {
				return true
			}
			if t := info.TypeOf(c); t != nil && isBoolType(t) {
				n++
				r.Fail(rule, FuncKey(fd.Obj)+" :: "+name, r.Prog.RelPos(c.Pos()), "result of "+name+" is discarded: when the attempt fails the work is silently skipped")
			}
			return true
		})
	}
	r.Pass(rule, "all-try-calls", "", fmt.Sprintf("%d discarded Try* results", n))
}

// CheckNoNewFilter (G5): the element filters of a loop (`if c { continue }`, or the equivalent `if !c { body }` as
// the whole rest of the loop body) of every reference function are a subset of the reference's: a loop that used
// to process every element and now skips some (identity components, the sender itself, already-seen ids) has
// changed what it computes, even though no check was removed.
func (r *Run) CheckNoNewFilter(rule, name string, scope Scope) {
	r.Rule(rule, "no new element filter: in every function of the frozen reference ("+name+") each loop filter (`continue` under a condition, or the rest of the loop body nested under a condition) already exists in the reference; a loop that starts skipping elements is named")
	ri, err := readRef(name)
	if err != nil {
		r.FailKind("anchor-unresolved", rule, "ref:"+name, "cannot read reference inventory: "+err.Error())
		return
	}
	n := 0
	for _, fd := range r.Prog.FuncsIn(scope) {
		k := FuncKey(fd.Obj)
		ref, known := ri.Functions[k]
		if !known {
			// functions without any reference atoms are not in the inventory file: known only if the function existed
			// (unexported helpers have no entry of their own: their atoms are inventoried with their callers)
			if r.G.known == nil || !r.G.known[k] || !fd.Obj.Exported() {
				continue
			}
		}
		refN := r.normInv(ref)
		// only pure filters count: `if c { X; continue }; Y` is the if/else `if c { X } else { Y }`
		pure := map[string]int{}
		for _, a := range r.G.FlatAtoms(fd) {
			if a.Skip && a.PureSkip {
				pure[r.normRenamed(a.Sig())]++
			}
		}
		sigs := []string{}
		for sig := range pure {
			sigs = append(sigs, sig)
		}
		sort.Strings(sigs)
		for _, sig := range sigs {
			n++
			if refN[sig] == nil {
				r.Fail(rule, k+" :: "+sig, r.Prog.RelPos(fd.Decl.Pos()), fmt.Sprintf("loop filter `%s` (×%d) does not exist in the reference: the loop now skips elements it used to process", sig, pure[sig]))
			}
		}
		if known {
			r.Pass(rule, k, r.Prog.RelPos(fd.Decl.Pos()), "no new loop filter")
		}
	}
	r.Analysed[rule+" loop filters"] = n
}
