package main

import (
	"go/ast"
	"go/types"
	"strings"
)

// Operand immutability: value-returning combinators (Op, Add, ScalarOp, …) must not write into the
// backing storage of their receiver or arguments; otherwise combining a share / commitment twice, or
// verifying the original after a combination, silently uses a mutated operand.
func (r *Run) CheckOperandImmutability(rule string, scope Scope, min int) {
	names := map[string]bool{"Op": true, "Add": true, "Sub": true, "Neg": true, "OpInv": true, "ScalarOp": true, "ScalarMul": true, "Mul": true, "Clone": true,
		"Equal": true, "Double": true, "Square": true, "Inv": true, "TryInv": true, "ScalarExp": true, "Exp": true}
	r.Rule(rule, "operand immutability: combinators that return a new value ("+strings.Join(keysOf(names), "/")+") never assign to a field or element of their receiver or parameters, nor append to / copy into a slice of them")
	n := 0
	for _, fd := range r.Prog.FuncsIn(scope) {
		if !names[fd.Obj.Name()] || fd.Decl.Recv == nil {
			continue
		}
		sig := fd.Obj.Type().(*types.Signature)
		// must return something of (pointer to) the receiver's type or bool (Equal)
		if sig.Results().Len() == 0 {
			continue
		}
		info := fd.Pkg.TypesInfo
		operands := map[*types.Var]bool{}
		if len(fd.Decl.Recv.List) > 0 {
			for _, nm := range fd.Decl.Recv.List[0].Names {
				if v, ok := info.Defs[nm].(*types.Var); ok {
					operands[v] = true
				}
			}
		}
		if fd.Decl.Type.Params != nil {
			for _, fl := range fd.Decl.Type.Params.List {
				for _, nm := range fl.Names {
					if v, ok := info.Defs[nm].(*types.Var); ok {
						operands[v] = true
					}
				}
			}
		}
		n++
		paramSet := map[*types.Var]bool{}
		for v := range operands {
			paramSet[v] = true
		}
		rooted := func(e ast.Expr) bool {
			// e is recv.f, recv.f[i], recv.f[:k], *recv …
			for {
				switch x := ast.Unparen(e).(type) {
				case *ast.SelectorExpr:
					e = x.X
				case *ast.IndexExpr:
					e = x.X
				case *ast.SliceExpr:
					e = x.X
				case *ast.StarExpr:
					e = x.X
				case *ast.Ident:
					v, _ := info.Uses[x].(*types.Var)
					return v != nil && operands[v]
				default:
					return false
				}
			}
		}
		isBare := func(e ast.Expr) bool { _, ok := ast.Unparen(e).(*ast.Ident); return ok }
		// local aliases of operand storage: x := recv.f / recv.f[:k] (slice- or pointer-typed, not a call result)
		for changed := true; changed; {
			changed = false
			ast.Inspect(fd.Decl.Body, func(nd ast.Node) bool {
				as, ok := nd.(*ast.AssignStmt)
				if !ok || len(as.Lhs) != len(as.Rhs) {
					return true
				}
				for i, l := range as.Lhs {
					id := identOf(l)
					if id == nil {
						continue
					}
					v, _ := info.Defs[id].(*types.Var)
					if v == nil {
						v, _ = info.Uses[id].(*types.Var)
					}
					if v == nil || operands[v] {
						continue
					}
					rhs := ast.Unparen(as.Rhs[i])
					if isBare(rhs) {
						continue
					}
					switch info.TypeOf(rhs).Underlying().(type) {
					case *types.Slice, *types.Map:
						if rooted(rhs) {
							operands[v] = true
							changed = true
						}
					}
				}
				return true
			})
		}
		aliasBare := func(e ast.Expr) bool {
			// a bare identifier that aliases operand storage (not the operand parameters themselves, which may be rebound)
			id := identOf(e)
			if id == nil {
				return false
			}
			v, _ := info.Uses[id].(*types.Var)
			if v == nil || !operands[v] {
				return false
			}
			_, isParamOrRecv := paramSet[v]
			return !isParamOrRecv
		}
		bad := ""
		var badPos ast.Node
		ast.Inspect(fd.Decl.Body, func(nd ast.Node) bool {
			switch x := nd.(type) {
			case *ast.AssignStmt:
				for _, l := range x.Lhs {
					if !isBare(l) && rooted(l) {
						bad, badPos = "assigns to "+exprString(l), x
					}
				}
			case *ast.IncDecStmt:
				if !isBare(x.X) && rooted(x.X) {
					bad, badPos = "modifies "+exprString(x.X), x
				}
			case *ast.CallExpr:
				if id, ok := ast.Unparen(x.Fun).(*ast.Ident); ok {
					if b, ok := info.Uses[id].(*types.Builtin); ok && len(x.Args) > 0 {
						switch b.Name() {
						case "append":
							// append(recv.f[:k], …) or append(recv.f, …) may write into the operand's backing array
							if (!isBare(x.Args[0]) && rooted(x.Args[0])) || aliasBare(x.Args[0]) {
								if _, isSlice := info.TypeOf(x.Args[0]).Underlying().(*types.Slice); isSlice {
									bad, badPos = "appends to "+exprString(x.Args[0]), x
								}
							}
						case "copy", "clear":
							if !isBare(x.Args[0]) && rooted(x.Args[0]) {
								bad, badPos = b.Name()+"s into "+exprString(x.Args[0]), x
							}
						}
					}
				}
			}
			return true
		})
		key := FuncKey(fd.Obj)
		if bad == "" {
			r.Pass(rule, key, r.Prog.RelPos(fd.Decl.Pos()), "no write through operands")
		} else {
			r.Fail(rule, key, r.Prog.RelPos(badPos.Pos()), "combinator "+bad+": the operand is mutated, so a second use of it (another combination, a later verification) sees a different value")
		}
	}
	r.RequireCount(rule, "combinator methods", n, min)
}
