package main

import (
	"go/ast"
	"go/types"
	"sort"
	"strings"
)

// Field coverage ("Frozen Heart" rule): a method that serialises its receiver for hashing /
// commitment / transcript purposes (Bytes, and the named siblings) must read every field of the
// receiver struct in a value position – a mention only inside len()/cap() does not bind the content.

type fieldCoverResult struct {
	fd      *FuncDecl
	typ     *types.Named
	missing []string
	fields  int
}

// methodFieldCoverage computes, for a method with a struct (pointer) receiver, the fields that are
// never read in a value position in its body (following calls to other methods of the same receiver
// and helper functions that take the receiver as argument, in the same package, one level deep).
func methodFieldCoverage(r *Run, fd *FuncDecl) *fieldCoverResult {
	sig := fd.Obj.Type().(*types.Signature)
	if sig.Recv() == nil || fd.Decl.Recv == nil || len(fd.Decl.Recv.List) == 0 || len(fd.Decl.Recv.List[0].Names) == 0 {
		return nil
	}
	rt := sig.Recv().Type()
	if p, ok := rt.(*types.Pointer); ok {
		rt = p.Elem()
	}
	named, ok := rt.(*types.Named)
	if !ok {
		return nil
	}
	st, ok := named.Underlying().(*types.Struct)
	if !ok || st.NumFields() == 0 {
		return nil
	}
	covered := map[string]bool{}
	visited := map[*FuncDecl]bool{}
	var visit func(fd *FuncDecl, recvVar *types.Var, depth int)
	visit = func(fd *FuncDecl, recvVar *types.Var, depth int) {
		if visited[fd] || depth > 2 || recvVar == nil {
			return
		}
		visited[fd] = true
		info := fd.Pkg.TypesInfo
		// parent tracking for len()/cap() detection
		var stack []ast.Node
		ast.Inspect(fd.Decl.Body, func(n ast.Node) bool {
			if n == nil {
				stack = stack[:len(stack)-1]
				return true
			}
			stack = append(stack, n)
			switch x := n.(type) {
			case *ast.SelectorExpr:
				if !isVarIdent(info, x.X, recvVar) {
					return true
				}
				if fv, ok := info.Uses[x.Sel].(*types.Var); ok && fv.IsField() {
					if !onlyLength(info, stack) {
						covered[fv.Name()] = true
					}
				} else if m, ok := info.Uses[x.Sel].(*types.Func); ok {
					// another method of the same receiver: follow
					if md := r.Prog.Funcs[m.Origin()]; md != nil && md.Decl.Recv != nil && len(md.Decl.Recv.List) > 0 && len(md.Decl.Recv.List[0].Names) > 0 {
						rv, _ := md.Pkg.TypesInfo.Defs[md.Decl.Recv.List[0].Names[0]].(*types.Var)
						visit(md, rv, depth+1)
					}
				}
			case *ast.CallExpr:
				// whole receiver handed to a function: conservatively covers everything when the callee is
				// out of package or dynamic; follows in-package helpers
				for i, a := range x.Args {
					if !isVarIdent(info, a, recvVar) && !(isStarOf(info, a, recvVar)) {
						continue
					}
					if id, ok := ast.Unparen(x.Fun).(*ast.Ident); ok {
						if _, isB := info.Uses[id].(*types.Builtin); isB {
							continue
						}
					}
					f := staticCallee(info, x)
					if f == nil || r.Prog.Funcs[f.Origin()] == nil {
						for j := 0; j < st.NumFields(); j++ {
							covered[st.Field(j).Name()] = true
						}
						continue
					}
					hd := r.Prog.Funcs[f.Origin()]
					hs := f.Type().(*types.Signature)
					if i < hs.Params().Len() && hd.Decl.Type.Params != nil {
						// find the i-th parameter variable
						k := 0
						for _, fl := range hd.Decl.Type.Params.List {
							for _, nm := range fl.Names {
								if k == i {
									pv, _ := hd.Pkg.TypesInfo.Defs[nm].(*types.Var)
									visit(hd, pv, depth+1)
								}
								k++
							}
						}
					}
				}
			}
			return true
		})
	}
	rv, _ := fd.Pkg.TypesInfo.Defs[fd.Decl.Recv.List[0].Names[0]].(*types.Var)
	visit(fd, rv, 0)
	res := &fieldCoverResult{fd: fd, typ: named, fields: st.NumFields()}
	for i := 0; i < st.NumFields(); i++ {
		f := st.Field(i)
		if f.Name() == "_" {
			continue
		}
		if !covered[f.Name()] {
			res.missing = append(res.missing, f.Name())
		}
	}
	sort.Strings(res.missing)
	return res
}

func isStarOf(info *types.Info, e ast.Expr, v *types.Var) bool {
	if s, ok := ast.Unparen(e).(*ast.StarExpr); ok {
		return isVarIdent(info, s.X, v)
	}
	return false
}

// onlyLength: the innermost enclosing call of the selector is len()/cap().
func onlyLength(info *types.Info, stack []ast.Node) bool {
	for i := len(stack) - 2; i >= 0; i-- {
		switch x := stack[i].(type) {
		case *ast.ParenExpr:
			continue
		case *ast.CallExpr:
			if id, ok := ast.Unparen(x.Fun).(*ast.Ident); ok {
				if b, ok := info.Uses[id].(*types.Builtin); ok && (b.Name() == "len" || b.Name() == "cap") {
					return true
				}
			}
			return false
		default:
			return false
		}
	}
	return false
}

func staticCallee(info *types.Info, c *ast.CallExpr) *types.Func {
	switch f := ast.Unparen(c.Fun).(type) {
	case *ast.Ident:
		fn, _ := info.Uses[f].(*types.Func)
		return fn
	case *ast.SelectorExpr:
		fn, _ := info.Uses[f.Sel].(*types.Func)
		return fn
	case *ast.IndexExpr:
		return staticCallee(info, &ast.CallExpr{Fun: f.X})
	case *ast.IndexListExpr:
		return staticCallee(info, &ast.CallExpr{Fun: f.X})
	}
	return nil
}

// CheckFieldCoverage runs the rule over all methods named in `names` in scope.
func (r *Run) CheckFieldCoverage(rule string, scope Scope, names map[string]bool, exempt map[string]string, min int) {
	r.Rule(rule, "field coverage: every serialising method ("+strings.Join(keysOf(names), "/")+") of a struct reads every field of its receiver in a value position (a mention only inside len()/cap() does not count); a field that is not absorbed is not bound by the hash/commitment/transcript built from these bytes")
	n := 0
	for _, fd := range r.Prog.FuncsIn(scope) {
		if !names[fd.Obj.Name()] {
			continue
		}
		res := methodFieldCoverage(r, fd)
		if res == nil {
			continue
		}
		n++
		key := FuncKey(fd.Obj)
		var bad []string
		for _, m := range res.missing {
			if why, ok := exempt[key+"."+m]; ok {
				r.UseExempt(rule+" "+key+"."+m, why)
				continue
			}
			bad = append(bad, m)
		}
		if len(bad) == 0 {
			r.Pass(rule, key, r.Prog.RelPos(fd.Decl.Pos()), "all fields read")
		} else {
			for _, m := range bad {
				r.Fail(rule, key+"."+m, r.Prog.RelPos(fd.Decl.Pos()), "field `"+m+"` of "+res.typ.Obj().Name()+" is not read by "+fd.Obj.Name()+"() (or only its length is): its content is not bound")
			}
		}
	}
	r.RequireCount(rule, "serialising methods", n, min)
}

func keysOf(m map[string]bool) []string {
	ks := []string{}
	for k := range m {
		ks = append(ks, k)
	}
	sort.Strings(ks)
	return ks
}
