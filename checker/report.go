package main

import (
	"bufio"
	"fmt"
	"os"
	"path/filepath"
	"sort"
	"strconv"
	"strings"
	"time"
)

// Obligation is one evaluated rule instance.
type Obligation struct {
	Rule   string `json:"rule"`
	Key    string `json:"instance"`
	OK     bool   `json:"ok"`
	Pos    string `json:"site,omitempty"`
	Detail string `json:"detail,omitempty"`
	Known  bool   `json:"known_finding,omitempty"`
	Kind   string `json:"kind,omitempty"`
}

// Run collects the results of one check invocation.
type Run struct {
	Prop      string
	Tier      string
	Start     time.Time
	Prog      *Program
	G         *GuardEngine
	Obls      []*Obligation
	Analysed  map[string]int
	Notes     []string
	Exempt    map[string]string // exemptions actually used: key -> reason
	RuleText  map[string]string // rule id -> description
	Assume    []string
	known     []knownFinding
	knownUsed map[int]bool
	curKeys   map[string]bool // keys of the functions of the current program (lazily built)
	Mutants   *MutantStats
}

type MutantStats struct {
	Applied int      `json:"applied"`
	Killed  int      `json:"killed"`
	Skipped int      `json:"skipped_not_compiling"`
	Names   []string `json:"mutants"`
}

type knownFinding struct {
	Prop, Rule, Key, Text string
}

func verifDir() string {
	if d := os.Getenv("BCV_VERIF"); d != "" {
		return d
	}
	return "/verif"
}

func NewRun(prop, tier string, prog *Program) *Run {
	r := &Run{Prop: prop, Tier: tier, Start: time.Now(), Prog: prog, Analysed: map[string]int{}, Exempt: map[string]string{},
		RuleText: map[string]string{}, knownUsed: map[int]bool{}}
	if prog != nil {
		r.G = NewGuardEngine(prog)
		if tier != "emit" {
			r.G.known = loadKnownFuncs(prog)
		}
	}
	r.loadKnown()
	return r
}

func (r *Run) loadKnown() {
	f, err := os.Open(filepath.Join(verifDir(), "known-findings.txt"))
	if err != nil {
		return
	}
	defer f.Close()
	sc := bufio.NewScanner(f)
	sc.Buffer(make([]byte, 1<<20), 1<<20)
	for sc.Scan() {
		line := strings.TrimSpace(sc.Text())
		if !strings.HasPrefix(line, "known:") {
			continue
		}
		// known: property=C07 rule=C07.S2 key=<key> ;; text
		body := strings.TrimSpace(strings.TrimPrefix(line, "known:"))
		text := ""
		if i := strings.Index(body, " ;; "); i >= 0 {
			text = body[i+4:]
			body = body[:i]
		}
		kf := knownFinding{Text: text}
		rest := body
		for _, tag := range []string{"property=", "rule=", "key="} {
			rest = strings.TrimSpace(rest)
			if !strings.HasPrefix(rest, tag) {
				break
			}
			rest = rest[len(tag):]
			val := rest
			if tag != "key=" {
				if i := strings.IndexByte(rest, ' '); i >= 0 {
					val, rest = rest[:i], rest[i+1:]
				} else {
					rest = ""
				}
			} else {
				rest = ""
			}
			switch tag {
			case "property=":
				kf.Prop = val
			case "rule=":
				kf.Rule = val
			case "key=":
				kf.Key = strings.TrimSpace(val)
			}
		}
		if kf.Prop == r.Prop {
			r.known = append(r.known, kf)
		}
	}
}

func (r *Run) Rule(id, text string) { r.RuleText[id] = text }

func (r *Run) Pass(rule, key, pos, detail string) {
	r.Obls = append(r.Obls, &Obligation{Rule: rule, Key: key, OK: true, Pos: pos, Detail: detail})
}

func (r *Run) Fail(rule, key, pos, detail string) {
	o := &Obligation{Rule: rule, Key: key, OK: false, Pos: pos, Detail: detail, Kind: "violation"}
	for i, k := range r.known {
		if k.Rule == rule && k.Key == key {
			o.Known = true
			r.knownUsed[i] = true
		}
	}
	r.Obls = append(r.Obls, o)
}

// FailKind records a failure of the machinery's own preconditions (anchor unresolved, low count…).
func (r *Run) FailKind(kind, rule, key, detail string) {
	r.Obls = append(r.Obls, &Obligation{Rule: rule, Key: key, OK: false, Detail: detail, Kind: kind})
}

func (r *Run) Check(ok bool, rule, key, pos, detail string) {
	if ok {
		r.Pass(rule, key, pos, detail)
	} else {
		r.Fail(rule, key, pos, detail)
	}
}

// RequireCount fails closed when a rule matched fewer instances than confirmed by hand.
func (r *Run) RequireCount(rule, what string, got, min int) {
	r.Analysed[rule+" "+what] = got
	if got < min {
		r.FailKind("instance-count", rule, "count:"+what, fmt.Sprintf("rule matched %d %s, hand-confirmed minimum is %d: the rule would pass vacuously", got, what, min))
	}
}

func (r *Run) UseExempt(key, reason string) { r.Exempt[key] = reason }

// Finish prints the verdict, writes evidence and replay files and returns the exit code.
func (r *Run) Finish() int {
	sort.SliceStable(r.Obls, func(i, j int) bool {
		if r.Obls[i].Rule != r.Obls[j].Rule {
			return r.Obls[i].Rule < r.Obls[j].Rule
		}
		return r.Obls[i].Key < r.Obls[j].Key
	})
	vdir := verifDir()
	if o := os.Getenv("BCV_OUT"); o != "" {
		vdir = o
	}
	os.MkdirAll(filepath.Join(vdir, "evidence"), 0o755)
	os.MkdirAll(filepath.Join(vdir, "replay"), 0o755)
	// remove stale replay files of this property
	if old, _ := filepath.Glob(filepath.Join(vdir, "replay", r.Prop+"-*.json")); old != nil {
		for _, f := range old {
			os.Remove(f)
		}
	}
	nviol, nknown, ok := 0, 0, 0
	distinct := map[string]bool{}
	perRule := map[string][2]int{}
	for _, o := range r.Obls {
		pr := perRule[o.Rule]
		pr[0]++
		if o.OK {
			ok++
			pr[1]++
			distinct[o.Rule+"|"+o.Key] = true
		} else if o.Known {
			nknown++
			fmt.Printf("KNOWN-FINDING: property=%s %s %s %s — %s\n", r.Prop, o.Rule, o.Key, o.Pos, o.Detail)
		} else {
			nviol++
			path := filepath.Join(vdir, "replay", fmt.Sprintf("%s-%d.json", r.Prop, nviol))
			rep := map[string]any{"property": r.Prop, "rule": o.Rule, "rule_text": r.RuleText[o.Rule], "instance": o.Key, "site": o.Pos, "detail": o.Detail, "kind": o.Kind, "tier": r.Tier}
			writeJSON(path, rep)
			fmt.Printf("%s: [%s] %s: %s\n", o.Pos, o.Rule, o.Key, o.Detail)
			fmt.Printf("VIOLATION property=%s replay=%s\n", r.Prop, path)
		}
		perRule[o.Rule] = pr
	}
	// stale known findings: listed but no longer reported – say so (does not fail)
	for i, k := range r.known {
		if !r.knownUsed[i] {
			fmt.Printf("note: known finding no longer reported (fixed?): property=%s rule=%s key=%s\n", k.Prop, k.Rule, k.Key)
		}
	}
	// evidence
	samples := []any{}
	seenRule := map[string]int{}
	for _, o := range r.Obls {
		if seenRule[o.Rule] >= 3 || len(samples) >= 40 {
			continue
		}
		seenRule[o.Rule]++
		samples = append(samples, o)
	}
	rules := []string{}
	for id := range r.RuleText {
		rules = append(rules, id)
	}
	sort.Strings(rules)
	ruleDesc := []string{}
	for _, id := range rules {
		pr := perRule[id]
		ruleDesc = append(ruleDesc, fmt.Sprintf("%s (%d/%d): %s", id, pr[1], pr[0], r.RuleText[id]))
	}
	exUsed := []string{}
	for k, v := range r.Exempt {
		exUsed = append(exUsed, k+" — "+v)
	}
	sort.Strings(exUsed)
	seed, _ := strconv.Atoi(os.Getenv("VERIF_SEED"))
	cov := map[string]any{
		"explanation": "Static analysis of /repo's current working tree (purego build, go/packages + go/types + go/cfg [+ go/ssa]); no repository code is executed. " +
			"Each obligation is one rule instance evaluated on a concrete construct (function, call site, field). Rules: " + strings.Join(ruleDesc, " | "),
		"evaluations":         len(r.Obls),
		"distinct_nontrivial": len(distinct),
		"obligations":         len(r.Obls),
		"discharged":          ok,
		"known_findings":      nknown,
		"rule":                "obligations are enumerated from the type-checked program (all matching constructs in scope); an obligation is non-trivial when it matched real code; distinct by rule+instance key",
		"samples":             samples,
		"analysed":            r.Analysed,
		"not_analysed":        []string{"pkg/base/cgo/boring/* (cgo, BoringSSL absent)", "pkg/base/nt/jacobi_cgo.go", "pkg/base/nt/numct/{modulus,nat,utils}_cgo.go", "*_test.go, */testutils, */testvectors"},
		"exemptions_used":     exUsed,
		"notes":               r.Notes,
		"exhaustive":          true,
		"per_rule":            perRule,
	}
	if r.Mutants != nil {
		cov["checker_self_test"] = r.Mutants
	}
	ev := map[string]any{
		"property_id": r.Prop,
		"tier":        r.Tier,
		"seed":        seed,
		"level":       "other",
		"coverage":    cov,
		"assumptions": append([]string{"go/types and go/cfg model the Go semantics of the analysed build configuration (-tags purego)", "cgo-only files are not analysed"}, r.Assume...),
		"wall_s":      time.Since(r.Start).Seconds(),
		"violations":  nviol,
	}
	if err := writeJSON(filepath.Join(vdir, "evidence", r.Prop+".json"), ev); err != nil {
		fmt.Fprintln(os.Stderr, "cannot write evidence:", err)
		return 2
	}
	fmt.Printf("%s %s: %d obligations, %d discharged, %d known findings, %d violations (%.1fs)\n", r.Prop, r.Tier, len(r.Obls), ok, nknown, nviol, time.Since(r.Start).Seconds())
	if nviol > 0 {
		return 1
	}
	return 0
}

// loadKnownFuncs: keys of all functions that existed when the references were frozen (every declared
// function is recorded by `bcv emit` in ref/functions.json).
func loadKnownFuncs(prog *Program) map[string]bool {
	var keys []string
	if err := readJSON(refPath("functions.json"), &keys); err != nil || len(keys) < 1000 {
		return nil
	}
	m := map[string]bool{}
	for _, k := range keys {
		m[k] = true
	}
	return m
}
